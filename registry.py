"""Single source of truth for which properties are claimed; gen_manifest.py renders MANIFEST.json."""
PROPS = ["C%02d" % i for i in range(1, 21)]

# id -> dict(level_text, level_note, technique, design_ref)  (filled as checks are built and self-tested)
_DEC_NOTE = ("Trusted: z3/cvc5; pyvc's encoding of the Python subset (ints mathematical, floor division, shifts/masks by constants as div/mod, "
             "sequences as array+length); the buffered-stream contract (read(k) = min(k, remaining) bytes, files and pipes alike), latin-1 codec, "
             "decimal str.format; nonlinear facts only through separately proved lemmas; the sidecar's transcription of the formats. "
             "Not covered: see DESIGN.md per property; units not yet under contract are listed in the evidence.")
_TX_NOTE = ("Trusted: CPython as the executor of the real methods; the opaque-part harness (every use of a part outside "
            "basic09_text/visit/is_str_expr/isinstance-against-base/truthiness is trapped, so a per-class result holds for every part); the "
            "structural-induction principle over finite ASTs (paper, DESIGN 6.3); the sidecar's expected templates (BASIC09 syntax, Color BASIC rules). "
            "Not an interpreter-level equivalence: numeric semantics of the two BASICs are out of scope (DESIGN section 5).")
CLAIMED = {
    "C01": dict(level_text="Per-class emission contracts (operand order, operator spelling, protected vs exposed operand positions) checked by executing "
                "the real basic09_text/visit on opaque operands; flattened chains of any operators; hex literal denotation for all values to 0x1FFFF; and for "
                "every ordered operator pair (binary x binary, prefix x binary, parenthesised) the emitted text re-parsed with the BASIC09 table equals the Color "
                "BASIC tree of the source (edge obligations, composed by the edge lemma). Claimed: the syntactic core of the property only.",
                level_note=_TX_NOTE, technique="contract-based verification: class contracts checked by symbolic execution of the real methods on opaque parts; finite case analysis over operator pairs"),
    "C02": dict(level_text="Per-class visit/emission contracts for all control statements, FOR/NEXT pairing invariant of the bare-NEXT patcher, semantics of the "
                "emitted IF / LOOP-EXITIF forms for every valuation of the conditions (0..3 ELSE IF arms), line and statement sequencing through convert() on "
                "injected ASTs with opaque statements, for all option combinations.",
                level_note=_TX_NOTE, technique="contract-based verification: class and pass contracts checked by executing the real code on opaque parts; structured-semantics evaluation of emitted templates"),
    "C05": dict(level_text="Visit contracts (own hook, then every part, in source order) and emission contracts (hoisted calls printed first) for every class of "
                "elements.py, step contracts of the hoisting pass (owner = latest statement, fresh temporaries, order, frame), the statement-replacement protocol; "
                "composed by structural induction to all nestings.",
                level_note=_TX_NOTE, technique="contract-based verification: class contracts (V/T/K) checked by symbolic execution of the real methods on opaque parts"),
    "C06": dict(level_text="Step contracts of LineReference/Filter/ZeroFilter/Checker/Collector visitors with frames, the 32700 dispatcher for all handler "
                "combinations (line 0 included), visit contracts of all jump-carrying classes, and the wiring of convert() (labels, refusals, dispatcher) on injected "
                "ASTs with opaque statements and boundary line numbers.",
                level_note=_TX_NOTE, technique="contract-based verification: pass step contracts and frames checked by executing the real code on opaque parts"),
    "C16": dict(level_text="Deductive proof, for all inputs and all loop iterations, that the real decoder functions (read from /repo on every run) "
                "write exactly header + every pixel of a well-formed uncompressed file: per-function contracts, loop invariants over the "
                "output array, callee contracts for getbit/pack/iotostr/strtoio/dump; obligations discharged by z3 (goal-directed instantiation, "
                "cvc5 fallback). Currently under contract: HRS, uncompressed MGE (RGB and composite); other layouts are being added.",
                level_note=_DEC_NOTE, technique="contract-based deductive verification: ast->VC generation with loop invariants, z3/cvc5"),
    "C17": dict(level_text="Deductive proof that for every valid encoding (defined by a ghost reference decoder that follows the format's token "
                "semantics) the real decoder's output equals the rendering of the ghost image: run-length MGE, escape-coded RAT, VEF unsquash. "
                "All run lengths, splits, literals equal to the escape byte are inside the quantifier.",
                level_note=_DEC_NOTE, technique="contract-based deductive verification with ghost reference decoders, z3/cvc5"),
    "C18": dict(level_text="Deductive proof of header digits and exact sample count of the output for all inputs and all option values the validators "
                "admit (HRS, MAX incl. derived height and Newsroom header, PIX, MGE, RAT), with skip handled as an offset into the same input.",
                level_note=_DEC_NOTE, technique="contract-based deductive verification: ast->VC generation with loop invariants, z3/cvc5"),
    "C19": dict(level_text="Deductive proof, for every byte string, that each decoder terminates (variants for every while loop) and that a normal "
                "return implies a complete image of the announced size; exceptional exits are enumerated by the VC generator (HRS, RAT, MGE, MAX, PIX, unsquash).",
                level_note=_DEC_NOTE, technique="contract-based deductive verification with exceptional postconditions and variants, z3/cvc5"),
}

NOT_REACHED = "not reached yet by the contracts built so far (DESIGN.md section 8, fall-back rule); no other technique is substituted"
