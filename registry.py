"""Single source of truth for which properties are claimed; gen_manifest.py renders MANIFEST.json."""
PROPS = ["C%02d" % i for i in range(1, 21)]

# id -> dict(level_text, level_note, technique, design_ref)  (filled as checks are built and self-tested)
_DEC_NOTE = ("Trusted: z3/cvc5; pyvc's encoding of the Python subset (ints mathematical, floor division, shifts/masks by constants as div/mod, "
             "sequences as array+length); the buffered-stream contract (read(k) = min(k, remaining) bytes, files and pipes alike), latin-1 codec, "
             "decimal str.format; nonlinear facts only through separately proved lemmas; the sidecar's transcription of the formats. "
             "Not covered: see DESIGN.md per property; units not yet under contract are listed in the evidence.")
CLAIMED = {
    "C16": dict(level_text="Deductive proof, for all inputs and all loop iterations, that the real decoder functions (read from /repo on every run) "
                "write exactly header + every pixel of a well-formed uncompressed file: per-function contracts, loop invariants over the "
                "output array, callee contracts for getbit/pack/iotostr/strtoio/dump; obligations discharged by z3 (goal-directed instantiation, "
                "cvc5 fallback). Currently under contract: HRS, uncompressed MGE (RGB and composite); other layouts are being added.",
                level_note=_DEC_NOTE, technique="contract-based deductive verification: ast->VC generation with loop invariants, z3/cvc5"),
    "C17": dict(level_text="Deductive proof that for every valid encoding (defined by a ghost reference decoder that follows the format's token "
                "semantics) the real decoder's output equals the rendering of the ghost image: run-length MGE, escape-coded RAT, VEF unsquash. "
                "All run lengths, splits, literals equal to the escape byte are inside the quantifier.",
                level_note=_DEC_NOTE, technique="contract-based deductive verification with ghost reference decoders, z3/cvc5"),
    "C18": dict(level_text="Deductive proof of header digits and exact sample count of the output for all inputs and all option values the validators "
                "admit (HRS, MAX incl. derived height and Newsroom header, PIX, MGE, RAT), with skip handled as an offset into the same input.",
                level_note=_DEC_NOTE, technique="contract-based deductive verification: ast->VC generation with loop invariants, z3/cvc5"),
    "C19": dict(level_text="Deductive proof, for every byte string, that each decoder terminates (variants for every while loop) and that a normal "
                "return implies a complete image of the announced size; exceptional exits are enumerated by the VC generator (HRS, RAT, MGE, MAX, PIX, unsquash).",
                level_note=_DEC_NOTE, technique="contract-based deductive verification with exceptional postconditions and variants, z3/cvc5"),
}

NOT_REACHED = "not reached yet by the contracts built so far (DESIGN.md section 8, fall-back rule); no other technique is substituted"
