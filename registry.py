"""Single source of truth for which properties are claimed; gen_manifest.py renders MANIFEST.json."""
PROPS = ["C%02d" % i for i in range(1, 21)]

# id -> dict(level_text, level_note, technique, design_ref)  (filled as checks are built and self-tested)
_DEC_NOTE = ("Trusted: z3/cvc5; pyvc's encoding of the Python subset (ints mathematical, floor division, shifts/masks by constants as div/mod, "
             "sequences as array+length); the buffered-stream contract (read(k) = min(k, remaining) bytes, files and pipes alike), latin-1 codec, "
             "decimal str.format; nonlinear facts only through separately proved lemmas; the sidecar's transcription of the formats. "
             "Not covered: see DESIGN.md per property; units not yet under contract are listed in the evidence.")
_TX_NOTE = ("Deciding step: the real methods are executed by CPython on opaque (parametric) parts, so each obligation holds for every operand; "
            "no SMT back end is involved and the step to all programs is a structural induction stated on paper - category `other`, not `proof`. Trusted: CPython as the executor of the real methods; the opaque-part harness (every use of a part outside "
            "basic09_text/visit/is_str_expr/isinstance-against-base/truthiness is trapped, so a per-class result holds for every part); the "
            "structural-induction principle over finite ASTs (paper, DESIGN 6.3); the sidecar's expected templates (BASIC09 syntax, Color BASIC rules). "
            "Not an interpreter-level equivalence: numeric semantics of the two BASICs are out of scope (DESIGN section 5).")
CLAIMED = {
    "C01": dict(level_text="Per-class emission contracts (operand order, operator spelling, protected vs exposed operand positions) checked by executing "
                "the real basic09_text/visit on opaque operands; flattened chains of any operators; hex literal denotation for all values to 0x1FFFF; and for "
                "every ordered operator pair (binary x binary, prefix x binary, parenthesised) the emitted text re-parsed with the BASIC09 table equals the Color "
                "BASIC tree of the source (edge obligations, composed by the edge lemma). Claimed: the syntactic core of the property only.",
                level_note=_TX_NOTE, technique="contract-based verification: class contracts checked by symbolic execution of the real methods on opaque parts; finite case analysis over operator pairs"),
    "C02": dict(level_text="Per-class visit/emission contracts for all control statements, FOR/NEXT pairing invariant of the bare-NEXT patcher, semantics of the "
                "emitted IF / LOOP-EXITIF forms for every valuation of the conditions (0..3 ELSE IF arms), line and statement sequencing through convert() on "
                "injected ASTs with opaque statements, for all option combinations; the real IF rules and visitors on every form x arm kind (bare line, GOTO, GOSUB, "
                "mixed): jumps as written, no stray line definitions, BOOLEAN condition in every form.",
                level_note=_TX_NOTE, technique="contract-based verification: class and pass contracts checked by executing the real code on opaque parts; structured-semantics evaluation of emitted templates"),
    "C03": dict(level_text="Per-function facts the property rests on: DIM bound+1 / prefix / sizes / fill loops covering 0..bound (class contract), `base 0` in the "
                "prologue, initialisation coverage of the variable pass, DATA item forms and order (real grammar rule + visitor), the empty-item flag accumulating over "
                "all DATA statements, the READ patcher (temporaries + filter, in target order), PRINT list reconstruction (11 list shapes), INPUT prompts, the "
                "string-function spelling table. Run-time meaning of BASIC09's READ/PRINT/INPUT is not modelled.",
                level_note=_TX_NOTE, technique="contract-based verification: class and pass contracts checked by executing the real code on opaque parts"),
    "C04": dict(level_text="For every device statement form and every presence pattern of its optional operands (85 rows written from the Color BASIC syntax and "
                "the library's parameter names): the real grammar rule parses the form, the real visitor is run with opaque operands, and the emitted call "
                "puts each operand in the position the real ecb.b09 PARAM lines give to the parameter of that name, defaults elsewhere; packed and "
                "blank-separated spellings agree; HBUFF prologue iff HBUFF at any depth.",
                level_note=_TX_NOTE, technique="contract-based verification: per-rule operand-map obligations (real grammar + real visitor on opaque operands) against the library's declared interface"),
    "C05": dict(level_text="Visit contracts (own hook, then every part, in source order) and emission contracts (hoisted calls printed first) for every class of "
                "elements.py, step contracts of the hoisting pass (owner = latest statement, fresh temporaries, order, frame), the statement-replacement protocol; "
                "composed by structural induction to all nestings.",
                level_note=_TX_NOTE, technique="contract-based verification: class contracts (V/T/K) checked by symbolic execution of the real methods on opaque parts"),
    "C06": dict(level_text="Step contracts of LineReference/Filter/ZeroFilter/Checker/Collector visitors with frames, the 32700 dispatcher for all handler "
                "combinations (line 0 included), visit contracts of all jump-carrying classes, and the wiring of convert() (labels, refusals, dispatcher) on injected "
                "ASTs with opaque statements and boundary line numbers.",
                level_note=_TX_NOTE, technique="contract-based verification: pass step contracts and frames checked by executing the real code on opaque parts"),
    "C07": dict(level_text="Every class's emitted text on opaque, non-empty operands is recognised by a BASIC09 statement-structure grammar with typed holes "
                "(statements, block openers/closers, complete argument lists, closed literals); plus the bundled examples as a labelled bounded stand-in.",
                level_note=_TX_NOTE + " The sidecar's BASIC09 statement grammar is the trusted stand-in for the BASIC09 loader.",
                technique="contract-based verification: emission templates of the real classes checked for membership in a BASIC09 statement grammar"),
    "C08": dict(level_text="Static obligation over the real PEG grammar (every adjacent token pair of every Sequence admits blanks), and for ~130 statement forms "
                "the packed / one-blank / two-blank spellings are all refused or byte-identical through the real convert(); LF/CR/CRLF, blank lines, NUL, `?`; content preserved.",
                level_note=_TX_NOTE + " Layout lemma (paper): boundary obligations compose to all layouts.",
                technique="contract-based verification: grammar boundary obligations + finite case analysis over statement forms through the real parser"),
    "C09": dict(level_text="Truncation rule on every accepted name (all 1-2 character names, representative longer ones), arr_ prefix for arrays in every "
                "position incl. implicit and source DIMs, generated identifiers disjoint from user identifiers (scan of every BasicVar(<constant>) site), "
                "identifier-capable terminals of the grammar are exactly var/str_var plus content terminals; reserved value names (ERNO) denote the same "
                "identifier in every position or are refused; the variable initialiser assigns user variables only.",
                level_note=_TX_NOTE, technique="contract-based verification: naming contracts on the real visitors and classes; finite enumeration of the name space (bounded part labelled)"),
    "C10": dict(level_text="Class contract of BasicDimStatement (bound+1, sizes per name / default, each name once), step contracts of SetDimStringStorage / "
                "GetDimmedArrays / DeclareImplicitArrays / StrVarAllocator, and Used$ <= Sized$ plus single declaration checked on convert() output for a "
                "string or array in each of 16 syntactic positions x {32, 80} x initialize_vars; inside the library a size-following string (string<<>>) is "
                "only handed to size-following parameters.",
                level_note=_TX_NOTE, technique="contract-based verification: class and pass step contracts; per-position obligations through the real convert()"),
    "C11": dict(level_text="Option footprints on an injected AST (opaque statements + one construct per option-sensitive aspect): for each option the on/off "
                "difference is confined to its documented region for every one of the 16 settings of the other options; command line: 7 file stems x 16 flag sets x 3 "
                "through the real start() with convert_file captured; convert_file's LF->CR.",
                level_note=_TX_NOTE, technique="contract-based verification: frame (footprint) obligations of convert() checked on injected ASTs for all option combinations"),
    "C12": dict(level_text="Order-determinacy typing over coco/b09 (every iteration over a set-typed expression is under sorted() without a key or at a justified "
                "order-free site), no-persistent-state frame (no memoisation, globals, mutated module containers, class-attribute writes, mutable defaults), decoders "
                "without hidden inputs and without module-level mutable containers written, aliased or passed on inside functions; bounded confirmations (6 hash seeds; A,B,A) listed separately.",
                level_note=_TX_NOTE + " Assumes the only seed-dependent behaviour of CPython visible to the code is set iteration order.",
                technique="contract-based verification: static typing/frame obligations over the real source (ast), plus labelled bounded confirmations"),
    "C13": dict(level_text="Closure/order/multiplicity of the real ProcedureBank for every root of the real library at two string sizes, every RUN of every bundle "
                "resolved, all placeholders replaced (counted), user literals unchanged and edge-free; bounded: all sampled 4-node call graphs, the three regular "
                "expressions against their contracts on all short strings.",
                level_note=_TX_NOTE + " `re` is trusted beyond the bounded validation.",
                technique="contract-based verification of ProcedureBank against closure/substitution contracts; regex contracts bounded-exhaustive (labelled)"),
    "C14": dict(level_text="Every RUN site: names found mechanically in coco/b09/*.py exist in ecb.b09 (or are OS-9 modules); for every statement/function form "
                "the arguments the real code builds match arity and string/numeric/record kind of the PARAM lines; every RUN inside the library against its "
                "callee; display_t/play_t of the prologue field-for-field against all library procedures; rule kinds (string rules build string-kinded constructs).",
                level_note=_TX_NOTE, technique="contract-based verification: interface obligations between emitters and the library's declared signatures"),
    "C15": dict(level_text="F2 obligations on the real grammar/visitor: arity of every tuple unpacking vs its Sequence, table keys vs rule literals, all operator "
                "spellings, literal terminals vs conversions (bounded enumeration), procedure names, DATA variants, and all single-token mutations of ~130 "
                "statement forms: only documented refusals. Exceptions outside the documented set are violations unless in a recorded input class.",
                level_note=_TX_NOTE + " parsimonious' matcher is trusted to terminate and to raise only ParseError.",
                technique="contract-based verification: arity/key/conversion obligations over the real grammar and visitor; bounded mutation stand-in labelled"),
    "C20": dict(level_text="The call sites bind operands to the helpers' parameters by name (checked against the real PARAM lines); the empty-item flag accumulates "
                "over all DATA statements and READ/DATA are patched as the filter expects. The helper bodies themselves "
                "are checked only by a BOUNDED stand-in: a concrete evaluator of the BASIC09 subset runs the real ecb.b09 text exhaustively over small domains "
                "(INSTR: subjects<=5, patterns<=3 over 2 letters, start 1..7; STRING$: counts -2..255 at capacities 32 and 255; read filter: numeral spellings). "
                "No BASIC09 interpreter or verifier exists in the sandbox.",
                level_note="Trusted: the BASIC09 semantics stated in tx/b09mini.py (FOR/WHILE, MID$, string capacity, VAL); Python float() as the model of VAL.",
                technique="contract check of call sites + bounded exhaustive evaluation of the real BASIC09 text (labelled bounded, not counted as proved)"),
    "C16": dict(level_text="Deductive proof, for all inputs and all loop iterations, that the real decoder functions (read from /repo on every run) "
                "write exactly header + every pixel of a well-formed uncompressed file: per-function contracts, loop invariants over the "
                "output array, callee contracts for getbit/pack/iotostr/strtoio/dump; obligations discharged by z3 (goal-directed instantiation, "
                "cvc5 fallback). Under contract: HRS, uncompressed MGE (RGB and composite palettes), raw CM3 lines (one/two pages, with/without "
                "pattern block), MAX in the seven table-driven pixel modes, uncompressed VEF (three types, palette = six-bit colour code, pixel fields), "
                "PIX (every sample of the sideways image at its position, both nibbles). "
                "Not under contract: the two floating-point MAX artifact modes (-br/-rb; sizes only). A bounded PIX stand-in "
                "(generated files vs the executable specification) runs with every check as a cross-check and is labelled bounded.",
                level_note=_DEC_NOTE, technique="contract-based deductive verification: ast->VC generation with loop invariants, z3/cvc5"),
    "C17": dict(level_text="Deductive proof that for every valid encoding (defined by a ghost reference decoder that follows the format's token "
                "semantics) the real decoder's output equals the rendering of the ghost image: run-length MGE, escape-coded RAT, CM3 line "
                "compression (ghost line decoder over the bit stream), VEF unsquash (result_spec). All run lengths, splits, literals equal to "
                "the escape byte are inside the quantifier.",
                level_note=_DEC_NOTE, technique="contract-based deductive verification with ghost reference decoders, z3/cvc5"),
    "C18": dict(level_text="Deductive proof of header digits and exact sample count of the output for all inputs and all option values the validators "
                "admit (HRS, MAX incl. derived height and Newsroom header, PIX, MGE, RAT, CM3, VEF start: PNG size, bitmap length, palette size), "
                "with skip handled as an offset into the same input.",
                level_note=_DEC_NOTE, technique="contract-based deductive verification: ast->VC generation with loop invariants, z3/cvc5"),
    "C19": dict(level_text="Deductive proof, for every byte string, that each decoder terminates (variants for every while loop) and that a normal "
                "return implies a complete image of the announced size; exceptional exits are enumerated by the VC generator (HRS, RAT, MGE, MAX, "
                "PIX, CM3, unsquash, VEF start). Damage the format can express (RAT overshoot, MGE terminator position, MAX short rows / bad first "
                "byte / inconsistent length, PIX non-square, CM3 line count, VEF data length) is a loud exit. The command-line wrappers (argparse, files) are "
                "outside the contracts: a static I/O frame rule (plain buffered reads, truncating writes) and a bounded stand-in (32 runs of main() on damaged "
                "files, files and pipes) cover them, labelled bounded. 'The stream ends inside a token' can leave a complete output of the right size and has no "
                "clause of its own: a bounded stand-in (150 generated files cut or changed at the places the formats make critical) runs with every check, labelled bounded. "
                "The exploration has a wall-clock budget (600 s): a unit whose path tree does not close in time is reported as not decided, never as holding.",
                level_note=_DEC_NOTE, technique="contract-based deductive verification with exceptional postconditions and variants, z3/cvc5"),
}

for _k, _v in CLAIMED.items():
    if _k in ("C16", "C17", "C18", "C19"):
        _v["category"], _v["engine"] = "proof", "pyvc"
    elif _k == "C20":
        _v["category"], _v["engine"] = "exploration", "tx"
    else:
        _v["category"], _v["engine"] = "other", "tx"

NOT_REACHED = "not reached yet by the contracts built so far (DESIGN.md section 8, fall-back rule); no other technique is substituted"
