"""Single source of truth for which properties are claimed; gen_manifest.py renders MANIFEST.json."""
PROPS = ["C%02d" % i for i in range(1, 21)]

# id -> dict(level_text, level_note, technique, design_ref)  (filled as checks are built and self-tested)
CLAIMED = {}

NOT_REACHED = "not reached yet by the contracts built so far (DESIGN.md section 8, fall-back rule); no other technique is substituted"
