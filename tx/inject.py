"""Run the real coco.b09.compiler.convert on an injected AST: grammar.parse and BasicVisitor are replaced by their
assumed contract ("return the tree / the BasicProg the parser would build"), so that convert()'s own body - the pass
pipeline - is what is executed.  Statement contents can then be opaque."""
import contextlib

from coco.b09 import compiler
from coco.b09.prog import BasicProg


class _Grammar:
    def parse(self, text):
        return ("tree", text)


@contextlib.contextmanager
def injected(prog_factory):
    saved = (compiler.grammar, compiler.BasicVisitor)

    class _BV:
        def visit(self, tree):
            return prog_factory()
    compiler.grammar, compiler.BasicVisitor = _Grammar(), _BV
    try:
        yield
    finally:
        compiler.grammar, compiler.BasicVisitor = saved


def convert_ast(lines_factory, **opts):
    """lines_factory() -> list of BasicLine (fresh objects on every call)."""
    with injected(lambda: BasicProg(lines_factory())):
        return compiler.convert("ignored", **opts)
