"""C15: for every input, conversion returns text or fails with a documented refusal.
F2 obligations over the real grammar and visitor (arity of every tuple unpacking, table keys, operator coverage,
literal conversions), pass-level exception safety, and the command-line procedure names."""
import ast
import itertools
import json
import os
import re

import parsimonious
from parsimonious import expressions as PE

import coco
from coco.b09 import compiler, grammar as G, visitors as V
from coco.b09.compiler import convert
from coco.b09.grammar import grammar
from tx.tier import THOROUGH, pick
from tx.p_c05 import ob, guarded
from tx.p_c08 import FORMS

B09DIR = os.path.join(os.path.dirname(coco.__file__), "b09")
try:
    import pydantic
    DOCUMENTED = (parsimonious.exceptions.ParseError, compiler.ParseError, V.LineNumberTooLargeException, pydantic.ValidationError)
except Exception:  # noqa
    DOCUMENTED = (parsimonious.exceptions.ParseError, compiler.ParseError, V.LineNumberTooLargeException)
# VisitationError derives from parsimonious' own base but wraps an *internal* exception: never a documented refusal
VISITATION = parsimonious.exceptions.VisitationError

def _bad_float_text(m):
    mm = re.search(r"could not convert string to float: '([^']*)'", m)
    if not mm:
        return False
    s = mm.group(1)
    # the recorded class: a text the num_literal terminal accepts although it is not a numeral
    return grammar["num_literal"].re.fullmatch(s) is not None or grammar["num_literal"].re.fullmatch(s.replace(" ", "")) is not None or s == ""


# (finding id, predicate on (exception, message, input)) - each finding covers only the inputs of its recorded class
# recorded exception signatures (input-aware); all three former entries were repaired in /repo (see known_findings.json `fixed`)
KNOWN_SIGNATURES = [
]


def classify(e, **inp):
    if isinstance(e, VISITATION):
        msg = str(e)
    else:
        msg = "%s" % e
    if isinstance(e, DOCUMENTED) and not isinstance(e, VISITATION):
        return "documented", None
    for fid, pred in KNOWN_SIGNATURES:
        if pred(e, msg, inp):
            return "known", fid
    return "internal", "%s: %s" % (type(e).__name__, msg.split("\n")[0][:160])


def arity():
    """every `a, b, ... = visited_children` (or parameter unpacking) in a visit_<rule> method matches the number of
    members of that rule's Sequence in the real grammar"""
    def run():
        src = open(os.path.join(B09DIR, "parser.py")).read()
        tree = ast.parse(src)
        cls = next(n for n in tree.body if isinstance(n, ast.ClassDef) and n.name == "BasicVisitor")
        bad, n = [], 0
        aliases = {}
        for fn in cls.body:
            if not isinstance(fn, ast.FunctionDef) or not fn.name.startswith("visit_"):
                continue
            # methods that delegate: self.visit_other(node, visited_children)
            for node in ast.walk(fn):
                if isinstance(node, ast.Call) and isinstance(node.func, ast.Attribute) and isinstance(node.func.value, ast.Name) and node.func.value.id == "self" and node.func.attr.startswith("visit_"):
                    aliases.setdefault(node.func.attr, []).append(fn.name)
        for fn in cls.body:
            if not isinstance(fn, ast.FunctionDef) or not fn.name.startswith("visit_"):
                continue
            for node in ast.walk(fn):
                if isinstance(node, ast.Assign) and isinstance(node.value, ast.Name) and node.value.id == "visited_children" and isinstance(node.targets[0], ast.Tuple):
                    k = len(node.targets[0].elts)
                    for vname in [fn.name] + aliases.get(fn.name, []):
                        rule = vname[6:]
                        if rule not in grammar:
                            continue
                        e = grammar[rule]
                        n += 1
                        if isinstance(e, PE.Quantifier) and e.max == 1 and k == 1 and "if not visited_children" in ast.unparse(fn):
                            continue   # optional member: zero children handled explicitly, one child unpacked
                        if not isinstance(e, PE.Sequence):
                            bad.append("%s unpacks %d children but rule %s is %s" % (vname, k, rule, type(e).__name__))
                        elif len(e.members) != k:
                            bad.append("%s unpacks %d children, rule %s has %d members" % (vname, k, rule, len(e.members)))
        return [ob("arity/every tuple unpacking matches its Sequence", not bad and n > 80, "equal", bad or "%d unpackings" % n)]
    return guarded("arity", run)


def tables():
    """TABLE[func.text] lookups: every literal the rule's first member can match is a key of the table"""
    def run():
        res = []
        pairs = [("statement2", "STATEMENTS2"), ("statement3", "STATEMENTS3"), ("func_exp", "FUNCTIONS"), ("func_str_exp", "STR_NUM_FUNCTIONS"),
                 ("str2_func_exp", "STR2_FUNCTIONS"), ("str3_func_exp", "STR3_FUNCTIONS"), ("num_str_func_exp", "NUM_STR_FUNCTIONS"),
                 ("num_str_func_exp_statements", "NUM_STR_FUNCTIONS_TO_STATEMENTS"), ("str_func_exp_statements", "STR_FUNCTIONS_TO_STATEMENTS"),
                 ("func_to_statements", "FUNCTIONS_TO_STATEMENTS"), ("func_to_statements2", "FUNCTIONS_TO_STATEMENTS2"), ("single_kw_statement", "SINGLE_KEYWORD_STATEMENTS")]
        for rule, table in pairs:
            first = grammar[rule].members[0]
            lits = [m.literal for m in getattr(first, "members", [first]) if isinstance(m, PE.Literal)]
            keys = set(getattr(G, table))
            missing = [l for l in lits if l not in keys]
            res.append(ob("tables/%s" % rule, lits and not missing, "literals of the rule are keys of %s" % table, missing or lits))
        return res
    return guarded("tables", run)


def operators():
    """every operator spelling the grammar accepts is turned into an operator object (else visitors read .operator of a raw node)"""
    def run():
        res = []
        rel = ["<=", ">=", "<>", "<", ">", "=>", "=<", "="]
        progs = []
        for op in rel:
            progs += ["10 X=A%sB" % op, "10 IF A%sB THEN 10" % op, '10 IF A$%sB$ THEN 10' % op, "10 IF A%sB AND C%sD THEN 10 ELSE 10" % (op, op)]
        for op in ["+", "-", "*", "/", "^", "AND", "OR"]:
            progs += ["10 X=A %s B" % op]
        progs += ["10 X=-A", "10 X=+A", "10 X=NOT A", "10 IF NOT (A=1) THEN 10", "10 IF A=1 OR B=2 THEN 10", '10 X$=A$+B$']
        for p in progs:
            try:
                convert(p + "\n", add_standard_prefix=False)
                res.append(ob("operators/%s" % p, True, "converted or documented refusal", "converted"))
            except Exception as e:  # noqa
                kind, what = classify(e)
                res.append(ob("operators/%s" % p, kind == "documented", "converted or documented refusal", what or kind, known_hits=[what] if kind == "known" else []))
        return res
    return guarded("operators", run)


def tokens(src):
    return re.findall(r'"[^"]*"?|[A-Z][A-Z0-9]*\$?|\d+\.?\d*|&H[0-9A-F]+|<>|<=|>=|=<|=>|[^\sA-Z0-9]', src)


def mutations():
    """bounded stand-in for 'arbitrary text': every single-token deletion and duplication, and every adjacent swap, of
    every statement form - each must convert or be refused with a documented error"""
    out = []
    forms = sorted(set(f.replace("{_}", "").replace("{+}", " ") for f in FORMS))
    for form in forms:
        oid = "mutations/%s" % form

        def run(form=form, oid=oid):
            toks = tokens(form)
            variants = set()
            for i in range(len(toks)):
                variants.add(" ".join(toks[:i] + toks[i + 1:]))
                variants.add(" ".join(toks[:i] + [toks[i], toks[i]] + toks[i + 1:]))
                if i + 1 < len(toks):
                    variants.add(" ".join(toks[:i] + [toks[i + 1], toks[i]] + toks[i + 2:]))
                if THOROUGH:
                    # thorough: every token also replaced by every other token of the form, and all pairs of deletions
                    for j in range(len(toks)):
                        if j != i:
                            variants.add(" ".join(toks[:i] + [toks[j]] + toks[i + 1:]))
                            if j > i:
                                variants.add(" ".join(t for k, t in enumerate(toks) if k not in (i, j)))
            bad, known = [], set()
            for v in sorted(variants):
                try:
                    convert("100 %s\n" % v, add_standard_prefix=False)
                except Exception as e:  # noqa
                    kind, what = classify(e)
                    if kind == "known":
                        known.add(what)
                    elif kind == "internal":
                        bad.append("%r -> %s" % (v, what))
            return [ob(oid, not bad, "only documented refusals", bad[:4] or "%d variants" % len(variants), known_hits=sorted(known),
                       bounded="all single-token deletions, duplications and adjacent swaps of one statement form" + pick("", "; all token-for-token replacements and double deletions"))]
        out += guarded(oid, run)
    return out


def nesting():
    """every statement form in every arm of the IF forms and after `:`: converted, or refused with a documented error - a pass that skips
    an arm leaves half-transformed nodes behind, which surface as internal errors when the text is emitted"""
    out = []
    forms = sorted(set(f.replace("{_}", "").replace("{+}", " ") for f in FORMS))
    frames = {"THEN arm": "IF Q1=1 THEN %s", "ELSE arm": "IF Q1=1 THEN Q2=1 ELSE %s", "THEN arm of ELSE IF": "IF Q1=1 THEN Q2=1 ELSE IF Q1=2 THEN %s ELSE Q2=3",
              "final ELSE after ELSE IF": "IF Q1=1 THEN Q2=1 ELSE IF Q1=2 THEN Q2=2 ELSE %s", "final ELSE after two ELSE IF": "IF Q1=1 THEN Q2=1 ELSE IF Q1=2 THEN Q2=2 ELSE IF Q1=3 THEN Q2=3 ELSE %s",
              "second ELSE IF arm": "IF Q1=1 THEN Q2=1 ELSE IF Q1=2 THEN Q2=2 ELSE IF Q1=3 THEN %s", "after a colon": "Q2=1:%s", "THEN arm after a colon": "IF Q1=1 THEN Q2=1:%s",
              "nested IF in ELSE": "IF Q1=1 THEN Q2=1 ELSE IF Q1=2 THEN IF Q1=3 THEN %s ELSE %s ELSE %s"}
    for fname, frame in frames.items():
        oid = "nesting/%s" % fname

        def run(frame=frame, oid=oid):
            bad, known, n = [], set(), 0
            for form in forms:
                for kw in (dict(add_standard_prefix=False), dict(add_standard_prefix=True, initialize_vars=True, filter_unused_linenum=True, skip_procedure_headers=False, output_dependencies=False)):
                    n += 1
                    src = "100 %s\n200 END\n" % frame.replace("%s", form)
                    try:
                        convert(src, **kw)
                    except Exception as e:  # noqa
                        kind, what = classify(e)
                        if kind == "known":
                            known.add(what)
                        elif kind == "internal":
                            bad.append("%r -> %s" % (src, what))
            return [ob(oid, not bad, "only documented refusals", bad[:4] or "%d conversions" % n, known_hits=sorted(known), bounded="%d statement forms x 2 option sets in this position" % len(forms))]
        out += guarded(oid, run)
    return out


def long_programs():
    """the length of a program, of a line, of a list is not a nesting depth: long listings convert (or are refused with a documented error),
    and a mistake in the last line of a long listing is reported as the mistake it is"""
    def run():
        res = []
        body = "".join("%d A%d=%d\n" % (10 * (i + 1), i % 10, i) for i in range(1500))
        cases = {"1500 lines": (body, True), "1500 lines, the last one malformed": (body + "15010 A=(\n", False), "600 statements on one line": ("10 A=1" + ":A=A+1" * 600 + "\n", True),
                 "500 PRINT items": ("10 PRINT 1" + ";1" * 500 + "\n", True), "800 DATA items": ("10 DATA 1" + ",1" * 800 + "\n", True), "300 terms in one sum": ("10 A=1" + "+B" * 300 + "\n", True),
                 "200 ON targets": ("10 ON A GOTO 10" + ",10" * 200 + "\n", True), "60 names in one DIM": ("10 DIM " + ",".join("A%d(2)" % (i % 10) if False else "%s%s(2)" % (chr(65 + i // 26), chr(65 + i % 26)) for i in range(60)) + "\n", True),
                 "400 blank lines between two lines": ("10 A=1\n" + "\n" * 400 + "20 B=2\n", True)}
        for name, (src, accepted) in cases.items():
            try:
                convert(src, add_standard_prefix=False)
                got = "converted"
            except Exception as e:  # noqa
                kind, what = classify(e)
                got = "documented refusal" if kind == "documented" else (what or kind)
            res.append(ob("long/%s" % name, got == ("converted" if accepted else "documented refusal"), "converted" if accepted else "documented refusal", got[:120], bounded="one long listing"))
        return res
    return guarded("long", run)


def duplicate_lines():
    """a listing may define a line number twice (a merged or hand-edited file): whatever refers to such a number, the text is converted or
    refused with a documented error"""
    def run():
        bad, n = [], 0
        refs = ["GOTO 10", "GOSUB 10", "ON A GOTO 10,30", "ON A GOSUB 30,10", "IF A=1 THEN 10", "IF A=1 THEN 30 ELSE 10", "IF A=1 THEN B=1 ELSE IF A=2 THEN 10 ELSE 30", "ON ERR GOTO 10", "ON BRK GOTO 10",
                "A=1", "FOR I=1 TO 2:NEXT", "RESTORE"]
        layouts = ["10 A=1\n10 B=2\n20 %s\n30 END\n", "10 A=1\n20 %s\n10 B=2\n30 END\n", "20 %s\n10 A=1\n30 END\n10 B=2\n", "10 A=1\n10 B=2\n10 C=3\n20 %s\n30 END\n30 END\n", "0 A=1\n0 B=2\n10 C=1\n20 %s\n30 END\n"]
        for ref in refs:
            for lay in layouts:
                src = lay % ref
                for kw in (dict(add_standard_prefix=False), dict(filter_unused_linenum=True), dict(initialize_vars=True, output_dependencies=True, procname="p")):
                    n += 1
                    try:
                        convert(src, **kw)
                    except Exception as e:  # noqa
                        kind, what = classify(e)
                        if kind == "internal":
                            bad.append("%r -> %s" % (src, what))
        return [ob("duplicate-lines/every kind of reference to a line number that is defined twice", not bad, "only documented refusals", bad[:4] or "%d conversions" % n,
                   bounded="12 referring statements x 5 layouts x 3 option sets")]
    return guarded("duplicate-lines", run)


def literals():
    """strings the literal terminals accept are accepted by the conversions applied to them"""
    def run():
        res = []
        for rule, alphabet, maxlen in (("num_literal", "+-. E1", pick(4, 6)), ("hex_literal", "&H F1", pick(5, 7)), ("int_literal", "10", pick(3, 6)), ("linenum", "10", pick(3, 6))):
            rx = grammar[rule].re
            bad, known, n = [], set(), 0
            for k in range(1, maxlen + 1):
                for chars in itertools.product(alphabet, repeat=k):
                    s = "".join(chars)
                    if rx.fullmatch(s) is None:
                        continue
                    n += 1
                    src = {"num_literal": "10 A=%s\n", "hex_literal": "10 A=%s\n", "int_literal": "10 DIM A(%s)\n", "linenum": "%s A=1\n"}[rule] % s
                    try:
                        convert(src, add_standard_prefix=False)
                    except Exception as e:  # noqa
                        kind, what = classify(e)
                        if kind == "known":
                            known.add(what)
                        elif kind == "internal":
                            bad.append("%r -> %s" % (s, what))
            res.append(ob("literals/%s" % rule, not bad and n > 0, "no internal exception", bad[:5] or "%d strings" % n, known_hits=sorted(known),
                          bounded="all strings over %r up to length %d that the terminal's regex accepts" % (alphabet, maxlen)))
        # hex numerals on both sides of BASIC09's 16-bit limit in every position that takes one (a DIM size is stored as size + 1)
        bad, n = [], 0
        for v in ("0", "1", "7FFE", "7FFF", "8000", "8001", "FFFE", "FFFF", "10000", "FFFFFF"):
            for frame in ("10 A=&H%s\n", "10 DIM A(&H%s)\n", "10 DIM A$(2,&H%s)\n", "10 POKE &H%s,1\n", "10 A=PEEK(&H%s)\n", "10 DATA &H%s,,2\n20 READ A\n", "10 DATA &H%s\n", "10 A(&H%s)=1\n", "10 PRINT &H%s\n",
                          "10 IF A=&H%s THEN 10\n", "10 FOR I=&H%s TO &H%s:NEXT\n", "10 SOUND &H%s,1\n", "10 ON &H%s GOTO 10\n"):
                src = frame.replace("%s", v)
                for kw in (dict(add_standard_prefix=False), dict(initialize_vars=True)):
                    n += 1
                    try:
                        convert(src, **kw)
                    except Exception as e:  # noqa
                        kind, what = classify(e)
                        if kind == "internal":
                            bad.append("%r -> %s" % (src, what))
        res.append(ob("literals/hex numerals around 16 bits in every position", not bad, "no internal exception", bad[:5] or "%d conversions" % n, bounded="10 values x 13 positions x 2 option sets"))
        return res
    return guarded("literals", run)


def data_and_procnames():
    def run():
        res = []
        progs = {"hex-DATA-with-empty": "10 DATA &HFF,\n20 READ A,B\n", "num-DATA-with-empty": "10 DATA 1,,3\n20 READ A,B,C\n", "str-DATA-with-empty": '10 DATA "x",,Y\n20 READ A$,B$,C$\n',
                 "huge-literal": "10 A=1E999\n", "deep-parens": "10 A=" + "(" * 30 + "1" + ")" * 30 + "\n", "long-line": "10 A=1" + "+1" * 200 + "\n",
                 "open literal to a string variable": '10 A$="HELLO\n', "open literal to an array element": '10 A$(1)="HELLO\n', "open literal, LET, two subscripts": '10 LET B$(1,2)="X Y\n',
                 "open literal after another statement": '10 PRINT "A":Q$(2)="TAIL\n', "open literal in an IF arm": '10 IF A=1 THEN N$(K)="YES\n', "open DATA literal": '10 DATA "HELLO\n'}
        for name, src in progs.items():
            for deps in (False, True):
                try:
                    convert(src, output_dependencies=deps, procname="p")
                    res.append(ob("programs/%s,deps=%d" % (name, deps), True, "converted or documented refusal", "converted"))
                except Exception as e:  # noqa
                    kind, what = classify(e, src=src)
                    res.append(ob("programs/%s,deps=%d" % (name, deps), kind != "internal", "converted or documented refusal", what or kind, known_hits=[what] if kind == "known" else []))
        refusals = {"two ON BRK": "10 ON BRK GOTO 10\n20 ON BRK GOTO 10\n", "two ON ERR": "10 ON ERR GOTO 10\n20 ON ERR GOTO 20\n", "undefined target": "10 GOTO 99\n",
                    "two undefined targets": "10 ON A GOTO 98,99\n", "label too large": "40000 A=1\n", "three ON BRK nested": "10 IF A THEN ON BRK GOTO 10 ELSE ON BRK GOTO 10\n20 ON BRK GOTO 10\n"}
        for name, src in refusals.items():
            for filt in (False, True):
                try:
                    convert(src, filter_unused_linenum=filt)
                    res.append(ob("refusal/%s,filter=%d" % (name, filt), False, "a documented refusal", "converted"))
                except Exception as e:  # noqa
                    kind, what = classify(e, src=src)
                    res.append(ob("refusal/%s,filter=%d" % (name, filt), kind == "documented", "a documented refusal", what or type(e).__name__))
        # a procedure name that is also a runtime procedure the program calls (the call graph gets a cycle)
        for nm, src in (("ecb_cls", "10 CLS\n"), ("inkey", "10 A$=INKEY$\n"), ("ecb_str", "10 PRINT 1\n"), ("_ecb_start", "10 A=1\n")):
            try:
                convert(src, output_dependencies=True, procname=nm)
                res.append(ob("procname/%r (also a runtime procedure)" % nm, True, "converted", "converted"))
            except Exception as e:  # noqa
                kind, what = classify(e, procname=nm)
                res.append(ob("procname/%r (also a runtime procedure)" % nm, kind == "documented", "converted or documented refusal", what or kind))
        for nm in ["p", "A1", "3d", "2048", "_x", "a_b", "a-b", "-", "-x", "x" * 40, "a.b", "my prog", ""]:
            try:
                convert("10 A=1\n", output_dependencies=True, procname=nm)
                res.append(ob("procname/%r" % nm, True, "converted", "converted"))
            except Exception as e:  # noqa
                kind, what = classify(e, procname=nm)
                res.append(ob("procname/%r" % nm, kind != "internal", "converted or documented refusal", what or kind, known_hits=[what] if kind == "known" else []))
        return res
    return guarded("programs", run)


def loop_balance():
    """FOR/NEXT in any balance: NEXT lists longer than the open loops, NEXT without FOR, FOR without NEXT, in IF arms -
    converted or refused, never an internal error (bounded: all programs of up to 4 such lines)"""
    def run():
        import itertools
        lines = ["FOR I=1 TO 2", "FOR J=1 TO 2", "NEXT", "NEXT I", "NEXT I,J", "NEXT K,J,I", "IF A=1 THEN NEXT I,J", "IF A=1 THEN FOR K=1 TO 2"]
        bad, known, n = [], set(), 0
        for length in range(1, 5):
            for prog in itertools.product(lines, repeat=length):
                src = "".join("%d %s\n" % (10 * (k + 1), l) for k, l in enumerate(prog))
                n += 1
                try:
                    convert(src, add_standard_prefix=False)
                except Exception as e:  # noqa
                    kind, what = classify(e, src=src)
                    if kind == "known":
                        known.add(what)
                    elif kind == "internal":
                        bad.append("%r -> %s" % (src, what))
        return [ob("programs/every balance of FOR and NEXT", not bad, "converted or documented refusal", bad[:4] or "%d programs" % n, known_hits=sorted(known),
                   bounded="all programs of 1..4 lines over %d FOR/NEXT line forms" % len(lines))]
    return guarded("programs/loop-balance", run)


def no_hang():
    """'it never hangs': conversions of programs whose comments / literals are adversarial for the bank's quote-parity
    look-aheads finish within a generous limit (run in a child process that is killed at the limit)"""
    def run():
        import subprocess
        import sys
        import coco
        import os
        repo = os.path.dirname(os.path.dirname(os.path.abspath(coco.__file__)))
        progs = {
            "comment with RUN and a lone quote far behind it": '10 PRINT "HI"\n20 REM RUN MENU FROM THE DISK AFTER TYPING LOAD "MENU AND PRESSING ENTER TWICE\n',
            "many quotes after a RUN word": '10 REM RUN X ' + 'A"' * 31 + '\n',
            "literal with tag-like text and an odd quote behind": '10 A$=": STRING<<>> : STRING<<>> ' + "X" * 40 + '"+"' + "Y" * 40 + '\n20 REM "\n',
            "long line of blanks and colons": "10 A=1" + " : " * 300 + "\n",
            "procedure-like comment": "10 REM PROCEDURE " + "A " * 60 + '"\n',
            "40 nested convertible functions": "10 A=" + "INT(" * 40 + "B" + ")" * 40 + "\n",
            "nested VAL(STR$(INT(..)))": "10 PRINT " + "VAL(STR$(INT(" * 13 + "B" + ")))" * 13 + "\n",
            "nested INSTR / STRING$": "10 A=" + "INSTR(1,STRING$(" * 12 + "2,\"x\"" + "),\"x\")" * 12 + "\n",
            "40 nested parentheses and functions": "10 A=" + "ABS((" * 40 + "B" + "))" * 40 + "\n",
        }
        res = []
        for name, src in progs.items():
            code = ("import sys\nfrom coco.b09.compiler import convert\n"
                    "try:\n    convert(%r, output_dependencies=True, procname='p')\nexcept Exception as e:\n    print(type(e).__name__)\n" % src)
            try:
                p = subprocess.run([sys.executable, "-c", code], env=dict(os.environ, PYTHONPATH=repo), capture_output=True, text=True, timeout=60)
                got = "finished"
            except subprocess.TimeoutExpired:
                got = "still running after 60 s"
            res.append(ob("no-hang/%s" % name, got == "finished", "finished", got, bounded="one adversarial program, 60 s limit"))
        return res
    return guarded("no-hang", run)


def config_files():
    """the configuration file is input too: whatever it contains, loading it (directly and through convert_file / the command
    line) gives a configuration or the documented validation error - never an internal exception"""
    def run():
        import tempfile
        from coco.b09.configs import CompilerConfigs
        from coco import decb_to_b09
        res = []
        docs = {"empty": "", "comment only": "# nothing\n", "null": "~\n", "a list": "- 1\n- 2\n", "a scalar": "hello\n", "non-string key": "1: 2\n",
                "valid": "string_configs:\n  strname_to_size:\n    A$: 40\n", "bad name": "string_configs:\n  strname_to_size:\n    AAA$: 40\n",
                "bad size": "string_configs:\n  strname_to_size:\n    A$: 0\n", "wrong type": "string_configs: 7\n", "unknown key": "other: 1\n",
                "not yaml": "{[\n", "nested list": "string_configs:\n  strname_to_size: [1, 2]\n"}
        # every shape of key: the empty name, a lone suffix, digits first, lower case, blanks, very long
        for k in ("$", "$()", "()", "", " ", "1$", "a$", "A", "A$$", "A$(", "A$)", "A $", "AB C$", "A$()()", "_$", "A1B$", "A" * 300 + "$", "A$(1)", "'$'"):
            docs["key %r" % k] = "string_configs:\n  strname_to_size:\n    %s: 40\n" % json.dumps(k)
        for v in ("-1", "0", "1", "255", "256", "32767", "1e3", "4.5", "'40'", "null", "true", "[1]", "{}"):
            docs["size %s" % v] = "string_configs:\n  strname_to_size:\n    A$: %s\n" % v
        d = tempfile.mkdtemp(dir=os.environ.get("XDG_RUNTIME_DIR") or "/dev/shm")
        try:
            src = os.path.join(d, "p.bas")
            open(src, "w").write('10 DIM A$\n20 A$="x"\n')
            for name, text in docs.items():
                cfg = os.path.join(d, "cfg.yaml")
                open(cfg, "w").write(text)
                for how in ("load", "cli"):
                    try:
                        if how == "load":
                            CompilerConfigs.load(cfg)
                        else:
                            decb_to_b09.start(["-c", cfg, src, os.path.join(d, "out.b09")])
                        got = "loaded"
                    except SystemExit as e:
                        got = "exit %s" % e.code
                    except Exception as e:  # noqa
                        kind, what = classify(e)
                        if type(e).__module__.split(".")[0] in ("ruamel", "yaml"):
                            kind = "documented"      # the YAML reader's own syntax error for a file that is not YAML: a refusal of the file
                        got = "documented refusal" if kind == "documented" else (what or kind)
                    ok = got in ("loaded", "documented refusal") or got.startswith("exit")
                    res.append(ob("config/%s,%s" % (name, how), ok, "a configuration or the documented validation error", got))
        finally:
            for f in os.listdir(d):
                os.unlink(os.path.join(d, f))
            os.rmdir(d)
        return res
    return guarded("config", run)


def cli_file_names():
    """through the command line: every input file name over the characters the tool's own procedure-name pattern admits (with and
    without an extension, with several dots) is converted or refused with a documented error"""
    def run():
        import tempfile
        from coco import decb_to_b09
        res = []
        d = tempfile.mkdtemp(dir=os.environ.get("XDG_RUNTIME_DIR") or "/dev/shm")
        try:
            for name in ["GAME", "GAME.bas", "my-prog_2", "3D", "a.b.bas", "x.", "a-b.BAS", "_p", "2048.bas", "A1", "name.with.many.dots"]:
                src = os.path.join(d, name)
                open(src, "w").write("10 A=1\n")
                for flags in ([], ["-D"], ["-l", "-z"]):
                    try:
                        decb_to_b09.start(flags + [src, os.path.join(d, "out.b09")])
                        got = "converted"
                    except SystemExit as e:
                        got = "exit %s" % e.code
                    except Exception as e:  # noqa
                        kind, what = classify(e, procname=name)
                        got = "documented refusal" if kind == "documented" else (what or kind)
                    res.append(ob("cli-name/%r %s" % (name, " ".join(flags)), got in ("converted", "documented refusal") or got.startswith("exit"), "converted or documented refusal", got))
                os.unlink(src)
        finally:
            for f in os.listdir(d):
                os.unlink(os.path.join(d, f))
            os.rmdir(d)
        return res
    return guarded("cli-name", run)


def cli_content():
    """through the command line: text the grammar lets through verbatim (string literals, comments, DATA items) reaches the output file
    whatever characters it holds - what convert() accepts the command line accepts"""
    def run():
        import tempfile
        from coco import decb_to_b09
        res = []
        d = tempfile.mkdtemp(dir=os.environ.get("XDG_RUNTIME_DIR") or "/dev/shm")
        try:
            for name, text in {"accented letter in a string literal": '10 PRINT "caf\u00e9"\n', "copyright sign in a comment": "10 REM \u00a9 1986\n", "n-tilde in a DATA item": "10 DATA se\u00f1or,1\n20 READ A$,B\n",
                               "quote comment with a euro sign": "10 'price \u20ac\n", "DEL in a string literal": '10 A$="\x7f"\n', "7-bit text": '10 PRINT "cafe"\n'}.items():
                src = os.path.join(d, "prog.bas")
                dst = os.path.join(d, "out.b09")
                with open(src, "w") as f:       # the same default encoding the tool reads with
                    f.write(text)
                for flags in ([], ["-D", "-z"]):
                    try:
                        want = convert(text, procname="prog", filter_unused_linenum="-z" in flags)
                    except Exception as e:  # noqa
                        want = None
                    try:
                        decb_to_b09.start(flags + [src, dst])
                        got = "converted"
                        if want is not None:
                            with open(dst) as f:
                                body = f.read()
                            marks = [c for c in text if ord(c) > 126]
                            if any(c not in body for c in marks):
                                got = "converted, but %r is missing from the output file" % [c for c in marks if c not in body]
                    except SystemExit as e:
                        got = "exit %s" % e.code
                    except Exception as e:  # noqa
                        kind, what = classify(e)
                        got = "documented refusal" if kind == "documented" else (what or kind)
                    ok = got == "converted" if want is not None else got != "converted" and (got == "documented refusal" or got.startswith("exit"))
                    res.append(ob("cli-content/%s %s" % (name, " ".join(flags)), ok, "converted like convert()" if want is not None else "refused like convert()", got, repr(text)))
        finally:
            for f in os.listdir(d):
                os.unlink(os.path.join(d, f))
            os.rmdir(d)
        return res
    return guarded("cli-content", run)


def obligations():
    return arity() + tables() + operators() + literals() + data_and_procnames() + loop_balance() + no_hang() + config_files() + cli_file_names() + cli_content() + duplicate_lines() + long_programs() + nesting() + mutations()
