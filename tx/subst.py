"""Substitution obligations: the class contracts of tx/cases.py are stated on opaque parts, and the step from them to all
ASTs (DESIGN 6.3) assumes that a container treats a part only through its contracted interface - in particular that it
does not look at the part's *class*.  Opaque parts cannot trap `isinstance(part, SomeRealClass)` (the answer is simply
False), so this file checks the assumption directly: for every case and every expression part of it, the part is
replaced by a real object of every ordinary expression class (operands of which are opaque again), and

    text(container[real child])  ==  text(container[opaque child]) with the child's marker replaced by the child's text
    trace(container[real child]) ==  trace(container[opaque child]) with the child event replaced by the child's trace

Classes the property text itself singles out (a convertible function as the whole right-hand side of an assignment,
print controls, literal subscripts of DIM) are not used as children here; they have their own cases."""
import re

from coco.b09 import elements as E
from tx import cases as C, opaque
from tx.opaque import OpqExp, OpaqueUse, RecordingVisitor, TRACE, L, R
from tx.run_cases import norm


def children(is_str):
    """(name, factory) of real expression objects of the given kind; their own operands are opaque"""
    if is_str:
        return [
            ("str-literal", lambda: E.BasicLiteral("s t", is_str_expr=True)),
            ("str-var", lambda: E.BasicVar("Q$", is_str_expr=True)),
            ("str-array-ref", lambda: E.BasicArrayRef(E.BasicVar("Q$", is_str_expr=True), E.BasicExpressionList([OpqExp("k1")]), is_str_expr=True)),
            ("str-concat", lambda: E.BasicBinaryExp(OpqExp("k1", True), "+", OpqExp("k2", True), is_str_expr=True)),
            ("str-paren", lambda: E.BasicParenExp(OpqExp("k1", True))),
            ("str-function", lambda: E.BasicFunctionCall("LEFT$", E.BasicExpressionList([OpqExp("k1", True), OpqExp("k2")]), is_str_expr=True)),
        ]
    return [
        ("literal", lambda: E.BasicLiteral(3.0)),
        ("negative-literal", lambda: E.BasicLiteral(-2.5)),
        ("hex-literal", lambda: E.HexLiteral("1F")),
        ("var", lambda: E.BasicVar("Q")),
        ("array-ref", lambda: E.BasicArrayRef(E.BasicVar("Q"), E.BasicExpressionList([OpqExp("k1")]))),
        ("unary-minus", lambda: E.BasicOpExp("-", OpqExp("k1"))),
        ("unary-plus", lambda: E.BasicOpExp("+", OpqExp("k1"))),
        ("numeric-not", lambda: E.BasicOpExp("NOT", OpqExp("k1"))),
        ("paren", lambda: E.BasicParenExp(OpqExp("k1"))),
        ("sum", lambda: E.BasicBinaryExp(OpqExp("k1"), "+", OpqExp("k2"))),
        ("product", lambda: E.BasicBinaryExp(OpqExp("k1"), "*", OpqExp("k2"))),
        ("numeric-and", lambda: E.BasicBinaryExp(OpqExp("k1"), "AND", OpqExp("k2"))),
        ("comparison", lambda: E.BasicBooleanBinaryExp(OpqExp("k1"), "=", OpqExp("k2"))),
        ("boolean-not", lambda: E.BasicBooleanOpExp("NOT", OpqExp("k1"))),
        ("boolean-paren", lambda: E.BasicBooleanParenExp(OpqExp("k1"))),
        ("function", lambda: E.BasicFunctionCall("ABS", E.BasicExpressionList([OpqExp("k1")]))),
    ]


class _Factory:
    """stands in for tx.cases.OpqExp while a case is built: the part with the chosen tag becomes a real object"""

    def __init__(self, tag, make):
        self.tag, self.make, self.kinds, self.made = tag, make, {}, None

    def __call__(self, tag, is_str=False):
        self.kinds[tag] = is_str
        if tag == self.tag and self.make is not None:
            self.made = self.make()
            return self.made
        return OpqExp(tag, is_str)


def _build(case, factory):
    saved = C.OpqExp
    C.OpqExp = factory
    try:
        return case.build()
    finally:
        C.OpqExp = saved


def _text_of(case, factory):
    opaque.reset()
    obj, labels = _build(case, factory)
    return norm(obj.basic09_text(case.indent))


def _trace_of(case, factory):
    opaque.reset()
    obj, labels = _build(case, factory)
    obj.visit(RecordingVisitor(labels))
    return [list(e) for e in TRACE if e[0] in ("hook", "child")]


def paren_in_context():
    """BasicParenExp exists only to group: whether its parentheses may be left out depends on where it stands.  For every
    parseable child class and every operator context the emitted text, read with BASIC09's precedence table, must group the
    child as one operand.  (Text equality would be stricter than C01: `X ^ (- K)` and `X ^ - K` are the same BASIC09 tree.)"""
    from tx.p_c01 import tree, B09_LEVELS
    out = []

    def plain(text):
        return re.sub(re.escape(L) + r"(\w+)@\d+" + re.escape(R), lambda m: m.group(1).upper(), str.__str__(text))
    kids = [(n, mk) for n, mk in children(False) if n in ("literal", "var", "unary-minus", "unary-plus", "numeric-not", "paren", "sum", "product", "numeric-and", "comparison")]
    contexts = {
        "X ^ (c)": lambda c: E.BasicBinaryExp(E.BasicVar("X"), "^", c), "(c) ^ X": lambda c: E.BasicBinaryExp(c, "^", E.BasicVar("X")),
        "X * (c)": lambda c: E.BasicBinaryExp(E.BasicVar("X"), "*", c), "(c) * X": lambda c: E.BasicBinaryExp(c, "*", E.BasicVar("X")),
        "X - (c)": lambda c: E.BasicBinaryExp(E.BasicVar("X"), "-", c), "X / (c)": lambda c: E.BasicBinaryExp(E.BasicVar("X"), "/", c),
        "- (c)": lambda c: E.BasicOpExp("-", c), "NOT (c)": lambda c: E.BasicOpExp("NOT", c), "X AND (c)": lambda c: E.BasicBinaryExp(E.BasicVar("X"), "AND", c),
        "X = (c)": lambda c: E.BasicBooleanBinaryExp(E.BasicVar("X"), "=", c),
    }
    shape = {"X ^ (c)": lambda t: ("^", "X", t), "(c) ^ X": lambda t: ("^", t, "X"), "X * (c)": lambda t: ("*", "X", t), "(c) * X": lambda t: ("*", t, "X"),
             "X - (c)": lambda t: ("-", "X", t), "X / (c)": lambda t: ("/", "X", t), "- (c)": lambda t: ("NEG", t), "NOT (c)": lambda t: ("NOT", t),
             "X AND (c)": lambda t: ("AND", "X", t), "X = (c)": lambda t: ("=", "X", t)}
    for cname, ctx in contexts.items():
        bad = []
        for name, make in kids:
            opaque.reset()
            child = make()
            try:
                want = shape[cname](tree(plain(child.basic09_text(0)), B09_LEVELS))
                got_text = plain(ctx(E.BasicParenExp(child)).basic09_text(0))
                got = tree(got_text, B09_LEVELS)
                if got != want:
                    bad.append(dict(child=name, emitted=got_text, read_by_BASIC09_as=repr(got), intended=repr(want)))
            except Exception as e:  # noqa
                bad.append(dict(child=name, got="%s: %s" % (type(e).__name__, str(e)[:120])))
        out.append(dict(id="T/subst/BasicParenExp in context %s" % cname, ok=not bad, expected="the parenthesised operand stays one operand under BASIC09's precedence (%d child classes)" % len(kids),
                        actual=bad[:3] or "grouped", props=["C01"], family="subst"))
    return out


def obligations(prop):
    out = []
    if prop == "C01":
        out += paren_in_context()
    for case in C.CASES:
        if prop not in case.props:
            continue
        if case.cls == "BasicParenExp" and case.text is not None:
            t_only = False      # text of the grouping class is judged in context (above); its visit trace is still judged here
        else:
            t_only = True
        probe = _Factory(None, None)
        try:
            base_text = _text_of(case, probe) if case.text is not None else None
        except Exception:  # noqa  (the case itself fails: reported by its own T obligation)
            continue
        tags = dict(probe.kinds)
        for tag, is_str in sorted(tags.items()):
            if base_text is not None and (L + tag + "@") not in base_text:
                continue        # the part is not printed by this class (e.g. consumed by a hoisted statement)
            bad_t, bad_v, n = [], [], 0
            try:
                base_trace = _trace_of(case, _Factory(None, None)) if case.trace is not None else None
            except Exception:  # noqa
                base_trace = None
            for name, make in children(is_str):
                n += 1
                f = _Factory(tag, make)
                try:
                    got = _text_of(case, f)
                    child = f.made

                    def sub(mo):
                        opaque.reset()
                        return str.__str__(child.basic09_text(int(mo.group(1))))
                    want = re.sub(re.escape(L + tag + "@") + r"(\d+)" + re.escape(R), sub, base_text)
                    if norm(want) != got:
                        bad_t.append(dict(child=name, expected=norm(want), got=got))
                except OpaqueUse as e:
                    bad_t.append(dict(child=name, got="opaque part inspected: %s" % e))
                except Exception as e:  # noqa
                    bad_t.append(dict(child=name, got="%s: %s" % (type(e).__name__, str(e)[:120])))
                if base_trace is not None and ["child", tag] in base_trace:
                    try:
                        f = _Factory(tag, make)
                        got = _trace_of(case, f)
                        opaque.reset()
                        f.made.visit(RecordingVisitor({}))
                        sub_trace = [list(e) for e in TRACE if e[0] in ("hook", "child")]
                        want = []
                        for e in base_trace:
                            want += sub_trace if e == ["child", tag] else [e]
                        anon = lambda tr: [[e[0], e[1], e[2] if e[2] == "self" else "*"] if e[0] == "hook" else e for e in tr]
                        if anon(got) != anon(want):
                            bad_v.append(dict(child=name, expected=want, got=got))
                    except Exception as e:  # noqa
                        bad_v.append(dict(child=name, got="%s: %s" % (type(e).__name__, str(e)[:120])))
            oid = "subst/%s/%s/part %s" % (case.cls, case.label, tag)
            if t_only:
                out.append(dict(id="T/" + oid, ok=not bad_t, expected="the part's text, whatever its class (%d classes)" % n, actual=bad_t[:3] or "class-independent",
                                props=list(case.props), family="subst"))
            if base_trace is not None and ["child", tag] in base_trace:
                out.append(dict(id="V/" + oid, ok=not bad_v, expected="the part's own trace in the part's place", actual=bad_v[:3] or "class-independent",
                                props=list(case.props), family="subst"))
    return out
