"""C04: every device statement form x presence pattern of its optional operands reaches the runtime procedure that
implements it, each source operand in the parameter the procedure *declares under that name* (positions come from
the PARAM lines of the real ecb.b09), defaults in the positions of omitted operands."""
import re

from coco.b09 import elements as E, visitors as V
from tx import ecbsig, f2, opaque
from tx.inject import convert_ast
from tx.opaque import OpqExp, OpqStmt, mark
from tx.p_c05 import ob, guarded
from tx.run_cases import norm

DISPLAY = "display"
# (rule, sentence template, procedure, {parameter name: operand}) ; operands: E<k> = k-th source operand, else literal text.
# Written from the Extended / Super Extended Color BASIC syntax and the parameter *names* of the library.
ROWS = [
    ("cls", "CLS", "ecb_cls", dict(color="1.0", display=DISPLAY)),
    ("cls", "CLS {e}", "ecb_cls", dict(color="E1", display=DISPLAY)),
    ("sound", "SOUND {e},{e}", "ecb_sound", dict(f="E1", d="E2", v="31.0", o="FIX(play.octo)")),
    ("locate_statement", "LOCATE {e},{e}", "ecb_locate", dict(x="E1", y="E2")),
    ("attr_statement", "ATTR {e},{e}", "ecb_attr", dict(f="E1", b="E2", bk="0.0", undr="0.0", display=DISPLAY)),
    ("attr_statement", "ATTR {e},{e},B", "ecb_attr", dict(f="E1", b="E2", bk="1.0", undr="0.0", display=DISPLAY)),
    ("attr_statement", "ATTR {e},{e},U", "ecb_attr", dict(f="E1", b="E2", bk="0.0", undr="1.0", display=DISPLAY)),
    ("attr_statement", "ATTR {e},{e},B,U", "ecb_attr", dict(f="E1", b="E2", bk="1.0", undr="1.0", display=DISPLAY)),
    ("attr_statement", "ATTR {e},{e},U,B", "ecb_attr", dict(f="E1", b="E2", bk="1.0", undr="1.0", display=DISPLAY)),
    ("width_statement", "WIDTH {e}", "_ecb_width", dict(width="E1", display=DISPLAY)),
    ("palette_statement", "PALETTE {e},{e}", "ecb_set_palette", dict(pr="E1", cc="E2", display=DISPLAY)),
    ("palette_reset_statement", "PALETTE RGB", "ecb_set_palette_rgb", dict(display=DISPLAY)),
    ("palette_reset_statement", "PALETTE CMP", "ecb_set_palette_cmp", dict(display=DISPLAY)),
    ("reset_colors_statement", "RGB", "ecb_set_palette_rgb", dict(display=DISPLAY)),
    ("reset_colors_statement", "CMP", "ecb_set_palette_cmp", dict(display=DISPLAY)),
    ("hscreen_statement", "HSCREEN", "ecb_hscreen", dict(n="0", display=DISPLAY)),
    ("hscreen_statement", "HSCREEN {e}", "ecb_hscreen", dict(n="E1", display=DISPLAY)),
    ("hcls_statement", "HCLS", "ecb_hcls", dict(n="-1", display=DISPLAY)),
    ("hcls_statement", "HCLS {e}", "ecb_hcls", dict(n="E1", display=DISPLAY)),
    ("hcolor_statement", "HCOLOR {e},{e}", "ecb_hcolor", dict(f="E1", b="E2", display=DISPLAY)),
    ("hcolor1_statement", "HCOLOR {e}", "ecb_hcolor", dict(f="E1", b="-1.0", display=DISPLAY)),
    ("hcircle_statement", "HCIRCLE({e},{e}),{e}", "ecb_hcircle", dict(x="E1", y="E2", r="E3", c="float(display.hfore)", rt="1.0", display=DISPLAY)),
    ("hcircle_statement", "HCIRCLE({e},{e}),{e},{e}", "ecb_hcircle", dict(x="E1", y="E2", r="E3", c="E4", rt="1.0", display=DISPLAY)),
    ("hellipse_statement", "HCIRCLE({e},{e}),{e},{e},{e}", "ecb_hcircle", dict(x="E1", y="E2", r="E3", c="E4", rt="E5", display=DISPLAY)),
    ("hellipse_statement", "HCIRCLE({e},{e}),{e},,{e}", "ecb_hcircle", dict(x="E1", y="E2", r="E3", c="float(display.hfore)", rt="E4", display=DISPLAY)),
    ("harc_statement", "HCIRCLE({e},{e}),{e},{e},{e},{e},{e}", "ecb_harc", dict(x="E1", y="E2", r="E3", c="E4", rt="E5", sp="E6", ep="E7", display=DISPLAY)),
    ("harc_statement", "HCIRCLE({e},{e}),{e},,{e},{e},{e}", "ecb_harc", dict(x="E1", y="E2", r="E3", c="float(display.hfore)", rt="E4", sp="E5", ep="E6", display=DISPLAY)),
    ("hset_statement", "HSET({e},{e})", "ecb_hset", dict(x="E1", y="E2", display=DISPLAY)),
    ("hset3_statement", "HSET({e},{e},{e})", "ecb_hset3", dict(x="E1", y="E2", c="E3", display=DISPLAY)),
    ("hreset_statement", "HRESET({e},{e})", "ecb_hreset", dict(x="E1", y="E2", display=DISPLAY)),
    ("hpaint_statement", "HPAINT({e},{e})", "ecb_hpaint", dict(x="E1", y="E2", c="FLOAT(display.hfore)", c0="FLOAT(display.hfore)", d=DISPLAY)),
    ("hpaint_statement", "HPAINT({e},{e}),{e}", "ecb_hpaint", dict(x="E1", y="E2", c="E3", c0="FLOAT(display.hfore)", d=DISPLAY)),
    ("hpaint_statement", "HPAINT({e},{e}),{e},{e}", "ecb_hpaint", dict(x="E1", y="E2", c="E3", c0="E4", d=DISPLAY)),
    ("hprint_statement", "HPRINT({e},{e}),{s}", "ecb_hprint", dict(x="E1", y="E2", txt="E3", display=DISPLAY)),
    ("hdraw_statement", "HDRAW {s}", "ecb_hdraw", dict(s="E1", d=DISPLAY)),
    ("play_statement", "PLAY {s}", "ecb_play", dict(s="E1", p="play")),
    ("hbuff_statement", "HBUFF {e},{e}", "_ecb_hbuff", dict(b="E1", s="E2", pid="pid", d=DISPLAY)),
    ("hget_statement", "HGET({e},{e})-({e},{e}),{e}", "ecb_hget", dict(x0="E1", y0="E2", x1="E3", y1="E4", b="E5", p="pid", d=DISPLAY)),
    ("statement3", "SET({e},{e},{e})", "ecb_set", dict(x="E1", y="E2", c="E3")),
    ("statement2", "RESET({e},{e})", "ecb_reset", dict(x="E1", y="E2")),
    ("print_at_statement0", "PRINT@{e}", "ecb_at", dict(location="E1")),
]
for act in ("AND", "NOT", "OR", "PRESET", "PSET", "XOR"):
    ROWS.append(("hput_statement", "HPUT({e},{e})-({e},{e}),{e},%s" % act, "ecb_hput",
                 dict(x0="E1", y0="E2", x1="E3", y1="E4", b="E5", a='"%s"' % act, p="pid", d=DISPLAY)))
for mode in ("PSET", "PRESET"):
    for opt, t in (("", "L"), (",B", "B"), (",BF", "BF")):
        ROWS.append(("hline_statement", "HLINE({e},{e})-({e},{e}),%s%s" % (mode, opt), "ecb_hline",
                     dict(rd='"d"', x0="E1", y0="E2", x1="E3", y1="E4", m='"%s"' % mode, t='"%s"' % t, display=DISPLAY)))
        ROWS.append(("hline_relative_statement", "HLINE-({e},{e}),%s%s" % (mode, opt), "ecb_hline",
                     dict(rd='"r"', x0="0.0", y0="0.0", x1="E1", y1="E2", m='"%s"' % mode, t='"%s"' % t, display=DISPLAY)))

# functions that become procedure calls: operands, then the result variable R in the parameter named last
FUNC_ROWS = [
    ("func_to_statements", "BUTTON({e})", "ecb_button", dict(button="E1", retval="R")),
    ("func_to_statements", "INT({e})", "ecb_int", dict(v="E1", retval="R")),
    ("func_to_statements2", "POINT({e},{e})", "ecb_point", dict(x="E1", y="E2", c0="R")),
    ("func_str_exp", "VAL({s})", "ecb_val", dict(str="E1", valout="R")),
    ("num_str_func_exp_statements", "STR$({e})", "ecb_str", dict(valin="E1", valout="R")),
    ("num_str_func_exp_statements", "HEX$({e})", "ecb_hex", dict(v="E1", str="R")),
    ("instr_expr", "INSTR({e},{s},{s})", "ecb_instr", dict(index="E1", str0="E2", str1="E3", outindex="R")),
    ("string_expr", "STRING$({e},{s})", "ecb_string", dict(count="E1", str="E2", strout="R")),
    ("joystk_to_statement", "JOYSTK({e})", "ecb_joystk", dict(joystk="E1", joy0x="joy0x", joy0y="joy0y", joy1x="joy1x", joy1y="joy1y", retval="R")),
]


def expected_text(sig, proc, binding):
    params = sig[proc]["params"]
    missing = [p for p, _, _ in params if p not in binding]
    extra = [k for k in binding if k not in [p for p, _, _ in params]]
    if missing or extra:
        return None, "table row and library disagree on parameter names: missing %s, unknown %s" % (missing, extra)
    return [binding[p] for p, _, _ in params], None


def render_arg(a):
    m = re.match(r"^E(\d+)$", a)
    if m:
        return str(mark(a, 0))
    if a == "R":
        return str(mark("R", 0))
    return a


def statement_rows():
    sig = ecbsig.parse()
    out = []
    for rule, tmpl, proc, binding in ROWS:
        oid = "operands/%s/%s" % (rule, tmpl.replace("{e}", "e").replace("{s}", "s"))

        def run(rule=rule, tmpl=tmpl, proc=proc, binding=binding, oid=oid):
            exp_args, err = expected_text(sig, proc, binding)
            if err:
                return [ob(oid, False, "table row consistent with the PARAM lines of ecb.b09", err)]
            res = []
            texts = []
            for spaces in ("", " "):
                sent = f2.fill(tmpl.replace(",", "{_},{_}").replace("(", "{_}({_}").replace(")", "{_}){_}") + "{_}", spaces) if spaces else f2.fill(tmpl)
                opaque.reset()
                st, n = f2.build(rule, sent)
                texts.append(norm(st.basic09_text(0)))
            exp = "run %s(%s)" % (proc, ", ".join(render_arg(a) for a in exp_args)) if exp_args else "run %s" % proc
            got = texts[0]
            ok = got.lower().startswith("run ") and got[4:] == exp[4:] and texts[0] == texts[1]
            res.append(ob(oid, ok, exp, got if texts[0] == texts[1] else dict(packed=texts[0], spaced=texts[1]),
                          "operand k of the real grammar rule in the parameter the library declares under that name; same result with blanks at every boundary"))
            # the same with every numeric operand a unary-operator expression (another class of the AST)
            opaque.reset()
            st, n = f2.build(rule, f2.fill(tmpl), wrap="unary")
            got_u = norm(st.basic09_text(0))
            exp_u = exp
            for k in range(1, 10):
                if ("{e}" in tmpl) and tmpl.replace("{s}", "").count("{e}") >= 1:
                    pass
            kinds = re.findall(r"\{(e|s)\}", tmpl)
            for k, kd in enumerate(kinds, 1):
                if kd == "e":
                    exp_u = exp_u.replace(str(mark("E%d" % k, 0)), "- " + str(mark("E%d" % k, 0)))
            res.append(ob(oid + " [unary operands]", got_u[4:] == exp_u[4:], exp_u, got_u, "operands of class BasicOpExp are placed like any other operand"))
            return res
        out += guarded(oid, run)
    for rule, tmpl, proc, binding in FUNC_ROWS:
        oid = "function/%s/%s" % (rule, tmpl.replace("{e}", "e").replace("{s}", "s"))

        def run(rule=rule, tmpl=tmpl, proc=proc, binding=binding, oid=oid):
            exp_args, err = expected_text(sig, proc, binding)
            if err and proc != "ecb_joystk":
                return [ob(oid, False, "table row consistent with the PARAM lines of ecb.b09", err)]
            opaque.reset()
            fx, n = f2.build(rule, f2.fill(tmpl))
            if not isinstance(fx, E.BasicFunctionalExpression):
                return [ob(oid, False, "a functional expression (procedure call with result variable)", type(fx).__name__)]
            fx.set_var(OpqExp("R", fx.is_str_expr))
            got = norm(fx.statement.basic09_text(0))
            exp = "run %s(%s)" % (proc, ", ".join(render_arg(a) for a in exp_args))
            return [ob(oid, got.lower() == exp.lower() and got[:4].lower() == "run ", exp, got, "source operands, then the result variable, by parameter name")]
        out += guarded(oid, run)
    return out


def hbuff_prologue():
    """The buffer prologue (dim pid / _ecb_init_hbuff) is emitted exactly when the program uses HBUFF (at any depth)
    and the standard prefix is requested."""
    def run():
        res = []
        S = lambda *t: E.BasicStatements([OpqStmt(x) if isinstance(x, str) else x for x in t])

        def hb():
            return E.BasicHbuffStatement(buffer=OpqExp("b"), size=OpqExp("s"))
        progs = {
            "none": lambda: [E.BasicLine(10, S("q1"))],
            "top-level": lambda: [E.BasicLine(10, S("q1", hb()))],
            "nested-in-else": lambda: [E.BasicLine(10, S(E.BasicIfElse(if_exp=OpqExp("c"), then_statements=S("q1"), else_if_statements=[],
                                                                       else_statements=S(E.BasicIf(OpqExp("c2"), S(hb()))))))],
        }
        for name, fac in progs.items():
            for prefix in (False, True):
                opaque.reset()
                text = convert_ast(fac, add_standard_prefix=prefix)
                has = "dim pid: integer" in text and "RUN _ecb_init_hbuff(pid)" in text
                want = prefix and name != "none"
                res.append(ob("hbuff-prologue/%s,prefix=%d" % (name, prefix), has == want, want, has))
            # no other option has a say: every setting of the remaining options gives the same answer
            import itertools
            bad = []
            for suffix, filt, init, deps, w32 in itertools.product((False, True), repeat=5):
                opaque.reset()
                text = convert_ast(fac, add_standard_prefix=True, add_suffix=suffix, filter_unused_linenum=filt, initialize_vars=init, output_dependencies=deps, default_width32=w32,
                                   procname="p")
                has = text.count("dim pid: integer") == 1 and text.count("RUN _ecb_init_hbuff(pid)") == 1
                none = "dim pid: integer" not in text and "_ecb_init_hbuff(pid)" not in text.split("procedure p")[-1]
                if (name != "none" and not has) or (name == "none" and not none):
                    bad.append(dict(add_suffix=suffix, filter=filt, init=init, deps=deps, width32=w32))
            res.append(ob("hbuff-prologue/%s, independent of the other options" % name, not bad, "same for all 32 settings", bad[:3] or "same"))
        # through the real parser: HBUFF in any position gives the prologue, anything else does not - the other buffer statements, the
        # runtime's own names used as user text, a user variable PID
        from coco.b09.compiler import convert
        real = {"HBUFF": ("10 HBUFF 1,100", True), "HBUFF in an ELSE arm": ("10 IF A=1 THEN B=1 ELSE IF A=2 THEN HBUFF 2,10", True), "HBUFF after a colon": ("10 A=1:HBUFF 1,10", True),
                "HGET and HPUT only": ("10 HGET(0,0)-(1,1),1:HPUT(0,0)-(1,1),1,PSET", False), "HGET only in an IF arm": ("10 IF A=1 THEN HGET(0,0)-(1,1),1", False),
                "user variable PID": ("10 PID=1:PI=PID+1:PRINT PID", False), "HBUFF in a string": ('10 PRINT "HBUFF 1,2":REM HBUFF 1,2', False), "HBUFF in DATA": ("10 DATA HBUFF 1,2", False)}
        for name, (src, want) in real.items():
            for kw in (dict(), dict(initialize_vars=True, filter_unused_linenum=True)):
                text = convert(src + "\n", add_standard_prefix=True, **kw)
                n = (len(re.findall(r"(?mi)^\s*dim pid: integer", text)), len(re.findall(r"(?i)RUN _ecb_init_hbuff\(pid\)", text)))
                res.append(ob("hbuff-prologue/source/%s%s" % (name, ",init+filter" if kw else ""), n == ((1, 1) if want else (0, 0)), "prologue lines %s" % ("once each" if want else "absent"), n, src))
        # ... and of what was converted before: a program without HBUFF gets no prologue after one with HBUFF
        opaque.reset()
        convert_ast(progs["top-level"], add_standard_prefix=True)
        opaque.reset()
        after = convert_ast(progs["none"], add_standard_prefix=True)
        res.append(ob("hbuff-prologue/none, converted after a program with HBUFF", "dim pid: integer" not in after and "_ecb_init_hbuff" not in after, "no prologue", "prologue present" if "dim pid" in after else "absent"))
        return res
    return guarded("hbuff-prologue", run)


def poke_addresses():
    """POKE: only the two documented clock-speed addresses (65496 slow, 65497 fast; also written in hex) are translated to the
    play.octo switch; every other address - literal or not - reaches POKE with address and value"""
    from coco.b09.compiler import convert

    def run():
        res = []
        bad = []
        for addr in [0, 1, 1024, 32767, 32768, 65280, 65494, 65495, 65496, 65497, 65498, 65499, 65535]:
            for spelling in ("%d" % addr, "&H%X" % addr):
                for val, vtext in (("1", "1.0"), ("A", "A")):
                    src = "POKE %s,%s" % (spelling, val)
                    try:
                        text = convert("10 %s\n" % src, add_standard_prefix=False).strip()
                    except Exception as e:  # noqa
                        text = "%s: %s" % (type(e).__name__, str(e)[:80])
                    if addr in (65496, 65497):
                        want = "10 play.octo := %d" % (addr - 65496)
                        ok = text == want
                    else:
                        ok = re.fullmatch(r"10 POKE (\S+), %s" % re.escape(vtext), text) is not None and "play.octo" not in text
                        want = "10 POKE <address %d>, %s" % (addr, vtext)
                    if not ok:
                        bad.append(dict(source=src, expected=want, got=text))
        res.append(ob("poke/only 65496 and 65497 switch the clock speed", not bad, "play.octo := 0|1 for the two addresses, POKE otherwise", bad[:4] or "13 addresses x 2 spellings x 2 values"))
        return res
    return guarded("poke", run)


def device_functions_per_occurrence():
    """a device function is read once per occurrence in the source: two identical occurrences in the operands of one
    statement are two runtime calls (the device state can change between them)"""
    import re
    from coco.b09.compiler import convert

    def run():
        res = []
        cases = {
            "SOUND BUTTON(1),BUTTON(1)": ("ecb_button", 2), "HSET(BUTTON(0)*10,BUTTON(0)*5)": ("ecb_button", 2), 'A$=INKEY$+INKEY$': ("inkey", 2),
            "POKE POINT(1,2),POINT(1,2)": ("ecb_point", 2), "A=BUTTON(0)+BUTTON(0)+BUTTON(0)": ("ecb_button", 3), "HCOLOR INT(A),INT(A)": ("ecb_int", 2),
            "PRINT BUTTON(0);BUTTON(0)": ("ecb_button", 2), "A=BUTTON(0):B=BUTTON(0)": ("ecb_button", 2),
        }
        for src, (proc, n) in cases.items():
            try:
                text = convert("10 %s\n" % src, add_standard_prefix=False)
                got = len(re.findall(r"(?i)\brun %s\(" % proc, text))
            except Exception as e:  # noqa
                text, got = "%s: %s" % (type(e).__name__, str(e)[:100]), -1
            res.append(ob("device-functions/%s" % src, got == n, "%d calls of %s" % (n, proc), dict(calls=got, text=text.strip())))
        return res
    return guarded("device-functions", run)


def parser_builds_a_tree():
    """every occurrence in the source has its own node: the parser's result is a tree, no node object stands in two places
    (passes modify nodes in place - DATA items, hoisting targets - and a shared node would change every place at once)"""
    from coco.b09.grammar import grammar
    from coco.b09.parser import BasicVisitor
    from coco.b09 import elements as E2

    def run():
        src = '10 A=5:B=5:C$="X":D$="X":SOUND 5,5:POKE 5,5\n20 DATA 5,,5,X,X\n30 READ A,A:PRINT A;A;5;5:IF A=5 THEN 10 ELSE 10\n40 A(5)=A(5)+&H5+&H5:HSET(5,5):FOR I=5 TO 5 STEP 5:NEXT I,I\n'
        prog = BasicVisitor().visit(grammar.parse(src))
        seen, shared = {}, []

        def walk(o, path):
            if isinstance(o, (list, tuple)):
                for k, x in enumerate(o):
                    walk(x, path + "[%d]" % k)
                return
            if not isinstance(o, E2.AbstractBasicConstruct) and type(o).__module__ != "coco.b09.prog":
                return
            if id(o) in seen:
                shared.append("%s %r at %s and %s" % (type(o).__name__, getattr(o, "basic09_text", lambda i: "?")(0)[:30] if hasattr(o, "basic09_text") else "", seen[id(o)], path))
                return
            seen[id(o)] = path
            for k, v in sorted(vars(o).items()) if hasattr(o, "__dict__") else []:
                walk(v, path + "." + k.lstrip("_"))
        walk(prog, "prog")
        return [ob("parser/one node per occurrence", not shared and len(seen) > 60, "no node object is reachable along two paths", shared[:4] or "%d nodes, all distinct" % len(seen))]
    return guarded("parser/tree", run)


def obligations():
    # defaults such as float(display.hfore) are read from a record the runtime fills by reference: the value that reaches the
    # library is the documented default only if program and library lay the record out identically (shared with C14)
    from tx.p_c14 import record_types
    from tx.p_c05 import share, temp_sequences
    from tx.p_c14 import rule_kinds
    return (statement_rows() + hbuff_prologue() + record_types() + device_functions_per_occurrence() + parser_builds_a_tree() + poke_addresses()
            + share("temporaries/", temp_sequences()) + share("kind/", rule_kinds()) + share("operand-values/", __import__("tx.p_c01", fromlist=["x"]).hex_values())
            # the handle `pid` the prologue declares is the runtime's: the initialiser leaves it alone (shared with C09)
            + share("init/", __import__("tx.p_c09", fromlist=["x"]).initializer_positions() + __import__("tx.p_c09", fromlist=["x"]).initializer_skips_generated())
            # device functions are sampled in source order and each result travels in its own generated temporary (shared with C05 / C09)
            + share("order/", __import__("tx.p_c05", fromlist=["x"]).call_order_through_convert()) + share("destinations/", __import__("tx.p_c09", fromlist=["x"]).temporaries_are_generated_names()))
