"""Tier switch for the bounded stand-ins and enumerations: `thorough` widens the bounds, never changes a contract."""
import os

THOROUGH = os.environ.get("VERIF_TIER", "quick") == "thorough"


def pick(quick, thorough):
    return thorough if THOROUGH else quick
