"""C10: one declaration per array and string, with the requested size.
Class contract of BasicDimStatement (bound + 1, prefix, sizes, initialisation loops), step contracts of the
declaration passes, and the Used$ <= Sized$ / no-double-declaration obligations on convert() output for one
string or array in each syntactic position."""
import itertools
import re

from coco.b09 import elements as E, visitors as V
from coco.b09.compiler import convert
from coco.b09.configs import CompilerConfigs, StringConfigs
from tx.opaque import OpqExp, OpqStmt
from tx.p_c05 import ob, guarded
from tx.run_cases import norm


def aref(name, bounds, hexb=False):
    is_str = name.endswith("$")
    idx = [E.HexLiteral(hex(b)[2:]) if hexb else E.BasicLiteral(b) for b in bounds]
    return E.BasicArrayRef(E.BasicVar(name, is_str_expr=is_str), E.BasicExpressionList(idx), is_str_expr=is_str)


def dim_contract():
    def run():
        res = []
        # bound + 1 per dimension, decimal and hex, 1..3 dimensions
        for bounds, hexb in itertools.product([(10,), (0,), (2, 3), (1, 2, 3), (255,), (32767,)], (False, True)):
            st = E.BasicDimStatement([aref("AB", bounds, hexb)])
            def fmt(b):
                return ("$%X" % (b + 1) if (b + 1) < 0x8000 else "%d" % (b + 1)) if hexb else "%d" % (b + 1)
            exp = "DIM arr_AB(" + ", ".join(fmt(b) for b in bounds) + ")"
            got = norm(st.basic09_text(0))
            res.append(ob("dim/bounds %s hex=%d" % (list(bounds), hexb), got == exp, exp, got, "emitted bound = source bound + 1 in every dimension"))
        # string sizes: default and per-name
        # sizes in every order inside one DIM statement (x, y, x must not lose the first group)
        for default, sizes in ((80, {"arr_B$": 40}), (32, {"arr_B$": 40}), (80, {"arr_A$": 40, "arr_C$": 40}), (80, {"arr_A$": 40, "arr_B$": 50, "arr_C$": 40})):
            st = E.BasicDimStatement([aref("A$", (5,)), aref("B$", (7,)), aref("C$", (9,)), E.BasicVar("D$", True)])
            st.default_str_storage = default
            st.strname_to_size = sizes
            got = norm(st.basic09_text(0))
            seen = {}
            for ln in got.split("\n"):
                m = re.match(r"^DIM (.*?)(: STRING\[(\d+)\])?$", ln)
                if m:
                    for d in m.group(1).split(", "):
                        seen.setdefault(d, []).append(int(m.group(3)) if m.group(3) else 32)
            want = {"arr_A$(6)": [sizes.get("arr_A$", default)], "arr_B$(8)": [sizes.get("arr_B$", default)], "arr_C$(10)": [sizes.get("arr_C$", default)], "D$": [default]}
            res.append(ob("dim/one statement, sizes default=%d map=%s" % (default, sizes), seen == want, want, seen))
        for default, sizes in ((32, {}), (80, {}), (80, {"arr_N$": 40}), (32, {"Q$": 12})):
            st = E.BasicDimStatement([aref("N$", (5,)), E.BasicVar("Q$", True), aref("K", (3,)), E.BasicVar("Z", False)])
            st.default_str_storage = default
            st.strname_to_size = sizes
            got = norm(st.basic09_text(0))
            want = {}
            for ident, decl in (("arr_N$", "arr_N$(6)"), ("Q$", "Q$")):
                want[decl] = sizes.get(ident, default)
            lines = got.split("\n")
            ok = True
            seen = {}
            for ln in lines:
                m = re.match(r"^DIM (.*?)(: STRING\[(\d+)\])?$", ln)
                if not m:
                    ok = False
                    continue
                for d in m.group(1).split(", "):
                    seen[d] = int(m.group(3)) if m.group(3) else None
            for decl, size in want.items():
                if seen.get(decl) != (None if size == 32 else size):
                    ok = False
            if seen.get("arr_K(4)", "x") is not None or seen.get("Z", "x") is not None or len(seen) != 4:
                ok = False
            res.append(ob("dim/string sizes default=%d map=%s" % (default, sizes), ok, "each name once; strings sized per name else default (explicit unless 32)", got))
        # initialisation loops
        st = E.BasicDimStatement([aref("M", (2, 3)), E.BasicVar("S$", True)], initialize_vars=True)
        got = norm(st.basic09_text(0))
        exp_loop = "FOR tmp_1 = 0 TO 2 \\ FOR tmp_2 = 0 TO 3 \\ arr_M(tmp_1, tmp_2) := 0 \\ NEXT tmp_2 \\ NEXT tmp_1"
        res.append(ob("dim/init loops cover 0..bound in every dimension", exp_loop in got and 'S$ := ""' in got, exp_loop + ' and S$ := ""', got))
        st2 = E.BasicDimStatement([aref("M", (2, 3))], initialize_vars=False)
        res.append(ob("dim/no init text unless asked", "FOR" not in st2.basic09_text(0), "no loops", st2.basic09_text(0)))
        return res
    return guarded("dim", run)


def config_names():
    """every key shape the configuration validator admits (X$, XY$, X1$, X$(), XY$(), X1$()) is mapped to the identifier the
    tool emits for that variable: scalars unchanged, arrays to arr_<name>$ - injectively"""
    keys = ["A$", "AB$", "A1$", "Z9$", "A$()", "AB$()", "A1$()", "AC$()", "Z9$()"]
    cfg = StringConfigs(strname_to_size={k: 40 + i for i, k in enumerate(keys)})
    v = V.SetDimStringStorageVisitor(default_str_storage=80, string_configs=cfg)
    st = E.BasicDimStatement([E.BasicVar("A$", True)])
    v.visit_statement(st)
    want = {(k if not k.endswith("()") else "arr_" + k[:-2]): 40 + i for i, k in enumerate(keys)}
    return [ob("steps/configuration names map to emitted identifiers", st.strname_to_size == want, want, st.strname_to_size)]

def pass_steps():
    def run():
        res = []
        # SetDimStringStorageVisitor: pushes sizes into DIMs; the recorded names are the emitted identifiers
        cfg = StringConfigs(strname_to_size={"N$()": 40, "Q$": 12})
        v = V.SetDimStringStorageVisitor(default_str_storage=80, string_configs=cfg)
        st = E.BasicDimStatement([aref("N$", (5,)), E.BasicVar("Q$", True), aref("K", (3,))])
        v.visit_statement(st)
        v.visit_statement(OpqStmt("other"))
        res.append(ob("steps/SetDimStringStorage sizes", st.default_str_storage == 80 and st.strname_to_size == {"arr_N$": 40, "Q$": 12}, {"arr_N$": 40, "Q$": 12}, st.strname_to_size))
        res.append(ob("steps/SetDimStringStorage names are emitted identifiers", v.dimmed_var_names == {"arr_N$", "Q$", "arr_K"}, ["Q$", "arr_K", "arr_N$"], sorted(v.dimmed_var_names),
                      "so that a DIMensioned array never hides the scalar of the same name from the allocator"))
        g = V.GetDimmedArraysVisitor()
        g.visit_statement(st)
        res.append(ob("steps/GetDimmedArrays", g.dimmed_var_names == {"arr_N$", "arr_K"}, ["arr_K", "arr_N$"], sorted(g.dimmed_var_names)))
        g.visit_statement(OpqStmt("other"))
        g.visit_statement(E.BasicDimStatement([aref("Z9", (1,)), E.BasicVar("W")]))
        res.append(ob("steps/GetDimmedArrays accumulates over all DIM statements", g.dimmed_var_names == {"arr_N$", "arr_K", "arr_Z9"}, ["arr_K", "arr_N$", "arr_Z9"], sorted(g.dimmed_var_names)))
        v2 = V.SetDimStringStorageVisitor(default_str_storage=80, string_configs=cfg)
        v2.visit_statement(st)
        v2.visit_statement(E.BasicDimStatement([aref("Z9$", (1,)), E.BasicVar("W$", True)]))
        res.append(ob("steps/SetDimStringStorage accumulates over all DIM statements", v2.dimmed_var_names == {"arr_N$", "Q$", "arr_K", "arr_Z9$", "W$"},
                      ["Q$", "W$", "arr_K", "arr_N$", "arr_Z9$"], sorted(v2.dimmed_var_names)))
        res += config_names()
        a16 = V.StrVarAllocatorVisitor(default_str_storage=16, dimmed_var_names=set())
        a16.visit_var(E.BasicVar("A$", True))
        got16 = [l.basic09_text(0) for l in a16.allocation_lines]
        res.append(ob("steps/StrVarAllocator declares at sizes below 32 too", got16 == ["DIM A$:STRING[16]"], ["DIM A$:STRING[16]"], got16))
        for big in (255, 256, 300, 1000, 32766):
            ab = V.StrVarAllocatorVisitor(default_str_storage=big, dimmed_var_names=set())
            ab.visit_var(E.BasicVar("A$", True))
            ab.visit_var(E.BasicVar("tmp_1$", True))
            gotb = [l.basic09_text(0) for l in ab.allocation_lines]
            res.append(ob("steps/StrVarAllocator declares the requested size %d" % big, gotb == ["DIM A$:STRING[%d]" % big, "DIM tmp_1$:STRING[%d]" % big], "STRING[%d]" % big, gotb))
        d = V.DeclareImplicitArraysVisitor(dimmed_var_names={"arr_K"}, initialize_vars=False)
        for nm in ("K", "J", "J", "P$"):
            d.visit_array_ref(aref(nm, (1,)))
        texts = sorted(s.basic09_text(0) for s in d.dim_statements)
        res.append(ob("steps/DeclareImplicitArrays = referenced - dimmed, once each, 11 elements", texts == ["DIM arr_J(11)", "DIM arr_P$(11)"], ["DIM arr_J(11)", "DIM arr_P$(11)"], texts))
        a = V.StrVarAllocatorVisitor(default_str_storage=80, dimmed_var_names={"Q$", "arr_N$"})
        for nm in ("Q$", "B$", "A", "B$", "A$", "tmp_1$"):
            a.visit_var(E.BasicVar(nm, nm.endswith("$")))
        got = [l.basic09_text(0) for l in a.allocation_lines]
        res.append(ob("steps/StrVarAllocator", got == ["DIM A$:STRING[80]", "DIM B$:STRING[80]", "DIM tmp_1$:STRING[80]"], "sorted, once each, not the DIMensioned ones", got))
        a32 = V.StrVarAllocatorVisitor(default_str_storage=32, dimmed_var_names=set())
        a32.visit_var(E.BasicVar("A$", True))
        res.append(ob("steps/StrVarAllocator default 32 declares nothing", a32.allocation_lines == [], [], [l.basic09_text(0) for l in a32.allocation_lines]))
        return res
    return guarded("steps", run)


def declared(text):
    """identifier -> list of (dims, size) from every DIM in the emitted program (the library part excluded)"""
    decl = {}
    for ln in text.split("\n"):
        for part in ln.split(" \\ "):
            m = re.match(r"^\s*(?:\d+ )?(?:DIM|dim) (.*)$", part.strip())
            if not m:
                continue
            body = m.group(1)
            size = None
            ms = re.search(r":\s*STRING\[(\d+)\]\s*$", body)
            if ms:
                size = int(ms.group(1))
                body = body[:ms.start()]
            elif ":" in body:
                body = body.split(":")[0]
            for item in re.findall(r"[A-Za-z_][A-Za-z_0-9.]*\$?(?:\([^)]*\))?", body):
                ident = item.split("(")[0]
                decl.setdefault(ident, []).append((item[len(ident):], size))
    return decl


def used_strings(text):
    body = "\n".join(l for l in text.split("\n") if not re.match(r"^\s*(\d+ )?(DIM|dim) ", l))
    body = re.sub(r'"[^"]*"', '""', body)
    return set(re.findall(r"(?<![A-Za-z_0-9.])((?:arr_)?[A-Z][A-Z0-9]?\$|tmp_\d+\$)", body))


POSITIONS = {
    "assignment target": '10 A$="x"',
    "expression operand": '10 B$="x"+A$',
    "PRINT item": "10 PRINT A$",
    "IF condition": '10 IF A$="x" THEN 10',
    "argument of a built-in function": "10 X=LEN(A$)",
    "argument of a runtime function": "10 X=VAL(A$)",
    "READ target": "10 DATA x\n20 READ A$",
    "INPUT target": "10 INPUT A$",
    "LINE INPUT target": "10 LINE INPUT A$",
    "implicit string array": '10 A$(1)="x"',
    "arrays used before the line that DIMs them": "10 GOSUB 100:A(1)=1:B$(2)=\"x\":T(1,2)=3\n20 END\n100 DIM A(20),B$(20),T(4,6):RETURN",
    "scalar string used before the line that DIMs it": "10 GOSUB 100:S$=\"x\"\n20 END\n100 DIM S$,N$(3):RETURN",
    "string scalar next to a DIMmed string array of the same name": '10 DIM Q$(3),AB$(2)\n20 Q$="x":Q$(1)=Q$:AB$=Q$+AB$(1)',
    "string array next to a DIMmed string scalar of the same name": '10 DIM Q$,AB$\n20 Q$(1)=Q$:AB$(2)=AB$',
    "twelve string temporaries in one statement": "10 PRINT A;B;C;D;E;F;G;H;I;J;K;L",
    "eleven string temporaries of string functions": "10 A$=STR$(1)+STR$(2)+STR$(3)+STR$(4)+STR$(5)+STR$(6)+STR$(7)+STR$(8)+STR$(9)+HEX$(10)+HEX$(11)+A$",
    "string name listed twice in one DIM": "10 DIM A$,B$,A$:A$=B$",
    "configured and plain string listed twice in one DIM": "10 DIM N$(2),B$,N$(2),B$:B$=N$(1)",
    "numeric name listed twice in one DIM": "10 DIM E,F,E:E=F",
    "scalar DIMmed in two statements": "10 DIM E:DIM E,F$:E=1",
    "implicit string array, two-character name": '10 NM$(1)="x":Z9$(2)=NM$(1)',
    "implicit numeric array, two-character name": "10 NM(1)=2:Z9(2)=NM(1)",
    "DIMensioned scalar": '10 DIM A$\n20 A$="x"',
    "DIMensioned array, configured size": '10 DIM N$(3)\n20 N$(1)="x"',
    "DIMensioned array and scalar of the same name": '10 DIM N$(3)\n20 N$="x":N$(1)=N$',
    "temporary of a string function": "10 PRINT STR$(X);HEX$(Y)",
    "subscript of a READ target": "10 DATA 1\n20 READ A(LEN(B$))",
    "ELSE arm after ELSE IF": '10 IF K=1 THEN A$="1" ELSE IF K=2 THEN B$="2" ELSE M$="m":S(4)=K:L$(2)=M$',
    "READ targets with an empty DATA item (read filter)": "10 DATA 1,,3\n20 READ A,Q(2),C",
    "one DIM, only the middle name configured": '10 DIM A$(5),N$(7),C$(9),D$\n20 A$(1)="a":N$(1)="b":C$(1)="c":D$="d"',
    "one DIM, first and last name configured": '10 DIM N$(5),B$(7),E$,N$\n20 N$(1)="a":B$(1)="b":E$="e":N$="n"',
}


def configured_sizes():
    """a configured size is the size of a DIMensioned string whatever its value - BASIC09's own default 32 included, below and above the
    requested default; names that are configured but not DIMensioned in the source get the requested default (the property's wording)"""
    def run():
        res = []
        src = "10 DIM A$,B$(5),C$,D$\n20 E$=A$+C$:F$(1)=E$\n"
        for default in (80, 32, 16):
            for sizes in ({"A$": 32, "B$()": 32, "C$": 100, "E$": 32, "F$()": 32}, {"A$": 31, "B$()": 33, "C$": 1, "E$": 255, "F$()": 256}, {"A$": default, "B$()": default}):
                text = convert(src, default_str_storage=default, compiler_configs=CompilerConfigs(string_configs=StringConfigs(strname_to_size=dict(sizes))), add_standard_prefix=False)
                decl = declared(text)
                problems = []
                for ident in ("A$", "arr_B$", "C$", "D$", "E$", "arr_F$"):
                    key = ident if not ident.startswith("arr_") else ident[4:] + "()"
                    want = sizes.get(key, default) if ident in ("A$", "arr_B$", "C$", "D$") else default     # the property: configured AND DIMensioned in the source
                    got = decl.get(ident)
                    size = got[0][1] if got else None
                    if not got and want != 32:
                        problems.append("%s never declared (so 32 bytes), %d configured" % (ident, want))
                    elif got and (size if size is not None else 32) != want:
                        problems.append("%s declared with %s bytes, %d configured" % (ident, size if size is not None else "BASIC09's 32", want))
                res.append(ob("configured/default=%d,sizes=%s" % (default, sorted(sizes.items())), not problems, "every DIMensioned string has its configured size, every other string the requested default", problems or "ok", src))
        return res
    return guarded("configured", run)


def config_file_reaches_the_program():
    """through convert_file() / the command line: the per-name sizes of the configuration file reach the DIM statements exactly as the same
    configuration object does through convert()"""
    def run():
        import io
        import os
        import tempfile
        from coco.b09 import compiler
        from coco import decb_to_b09
        res = []
        src = "10 DIM A$,B$(7),C$\n20 D$=A$+C$\n"
        d = tempfile.mkdtemp(dir=os.environ.get("XDG_RUNTIME_DIR") or "/dev/shm")
        try:
            cfgp = os.path.join(d, "sizes.yaml")
            open(cfgp, "w").write("string_configs:\n  strname_to_size:\n    A$: 100\n    B$(): 10\n")
            cfg = CompilerConfigs(string_configs=StringConfigs(strname_to_size={"A$": 100, "B$()": 10}))
            for size in (80, 32, 255):
                want = convert(src, default_str_storage=size, compiler_configs=cfg).replace("\n", "\r")
                out = io.StringIO()
                compiler.convert_file(io.StringIO(src), out, default_str_storage=size, config_file=cfgp)
                res.append(ob("config-file/convert_file, size %d" % size, out.getvalue() == want and "STRING[100]" in want and "STRING[10]" in want, "the text convert() gives with the same configuration (A$: 100, B$(): 10)",
                              "identical" if out.getvalue() == want else [l for l in out.getvalue().split("\r") if "DIM" in l][:4]))
                srcp, dstp = os.path.join(d, "prog.bas"), os.path.join(d, "out.b09")
                open(srcp, "w").write(src)
                decb_to_b09.start(["-s", str(size), "-c", cfgp, "-z", "-D", srcp, dstp])
                got = open(dstp, newline="").read()
                want2 = convert(src, default_str_storage=size, compiler_configs=cfg, initialize_vars=False, output_dependencies=False, procname="prog").replace("\n", "\r")
                res.append(ob("config-file/command line, size %d" % size, got == want2, "the text convert() gives with the same configuration", "identical" if got == want2 else [l for l in got.split("\r") if "DIM" in l][:4]))
        finally:
            for f in os.listdir(d):
                os.unlink(os.path.join(d, f))
            os.rmdir(d)
        return res
    return guarded("config-file", run)


def positions():
    out = []
    cfg = CompilerConfigs(string_configs=StringConfigs(strname_to_size={"N$()": 40}))
    for pos, src in POSITIONS.items():
        for default, init in itertools.product((80, 32), (False, True)):
            oid = "declared/%s,default=%d,init=%d" % (pos, default, init)

            def run(src=src, default=default, init=init, oid=oid):
                text = convert(src + "\n", default_str_storage=default, compiler_configs=cfg, initialize_vars=init)
                decl = declared(text)
                problems = []
                for ident, ds in decl.items():
                    if len(ds) > 1:
                        problems.append("%s declared %d times" % (ident, len(ds)))
                for ident in sorted(used_strings(text)):
                    want = 40 if ident == "arr_N$" else default
                    if default != 32 or ident == "arr_N$":
                        got = decl.get(ident)
                        if not got:
                            problems.append("%s used but never declared (so it has BASIC09's 32 bytes, %d requested)" % (ident, want))
                        elif got[0][1] != want and not (want == 32 and got[0][1] is None):
                            problems.append("%s declared with size %s, %d requested" % (ident, got[0][1], want))
                # arrays: every referenced array identifier has exactly one DIM with bound+1 / 11
                for ident in set(re.findall(r"(?<![A-Za-z_0-9])(arr_[A-Z][A-Z0-9]?\$?)\(", re.sub(r'"[^"]*"', '""', text))):
                    if ident not in decl:
                        problems.append("array %s is used but never declared" % ident)
                return [ob(oid, not problems, "every string / array identifier declared exactly once with the requested size", problems or "ok")]
            out += guarded(oid, run)
    return out


def obligations():
    # the requested size reaches the library through `string<<>>`: a sized string handed on inside the library keeps it
    from tx.p_c14 import sized_strings_stay_sized
    from tx import p_c09, p_c13
    return dim_contract() + pass_steps() + positions() + configured_sizes() + config_file_reaches_the_program() + sized_strings_stay_sized() + __import__("tx.p_c05", fromlist=["share"]).share("once/", p_c09.kinds_in_declarations()) + __import__("tx.p_c05", fromlist=["share"]).share(
        "bundled/", [o for o in p_c13.regex_contracts() if "STR_STORAGE_TAG" in o["id"]] + p_c13.requested_size_reaches_bundle())
