"""C07: whatever the real classes print (on opaque, non-empty operands) is structurally well-formed BASIC09."""
import re
from tx import cases, opaque
from tx.b09syntax import Bad, check_expr, check_program
from tx.opaque import OpaqueUse
from tx.p_c05 import ob, guarded
from tx.run_cases import norm

EXPR_CLASSES = {"BasicArrayRef", "BasicBinaryExp", "BasicBooleanBinaryExp", "BasicOpExp", "BasicBooleanOpExp", "BasicParenExp", "BasicBooleanParenExp",
                "BasicLiteral", "BasicVar", "BasicFunctionCall", "BasicFunctionalExpression", "BasicJoystkExpression", "BasicVarptrExpression", "HexLiteral",
                "BasicFunctionalExpression.statement"}
SKIP = {"BasicOperator", "BasicExpressionList", "BasicPrintArgs"}


def obligations():
    out = []
    for c in cases.CASES:
        if "C07" not in c.props or c.cls in SKIP or (c.cls == "BasicGoto" and c.label == "implicit"):
            continue
        oid = "wf/%s/%s" % (c.cls, c.label)
        opaque.reset()
        try:
            obj, _ = c.build()
            text = norm(obj.basic09_text(c.indent))
        except OpaqueUse as e:
            out.append(ob(oid, False, "well-formed text", "opaque part inspected: %s" % e))
            continue
        except Exception as e:  # noqa
            out.append(ob(oid, False, "well-formed text", "%s: %s" % (type(e).__name__, e)))
            continue
        try:
            if c.cls == "BasicFunctionalExpression.statement":
                check_program("RUN x" if False else text if text.lower().startswith("run ") else "RUN " + text)
            elif c.cls in EXPR_CLASSES:
                if text == "":
                    raise Bad("an expression printed as the empty text")
                check_expr(text)
            else:
                check_program(text)
            out.append(ob(oid, True, "well-formed", text))
        except Bad as e:
            out.append(ob(oid, False, "structurally well-formed BASIC09", "%s   in   %s" % (e, text)))
    # un-named functional expression: prints nothing - it must never be printed before the hoisting pass names it;
    # the pass pipeline guarantees that (C05), but an operand that no pass reaches stays empty: covered by the V findings.
    return out


def _examples():
    """Bounded stand-in (labelled as such): the bundled example programs, all filter/initialise combinations."""
    import glob
    import itertools
    import os
    import coco
    from coco.b09.compiler import convert
    root = os.path.dirname(os.path.dirname(os.path.abspath(coco.__file__)))
    out = []
    files = sorted(glob.glob(os.path.join(root, "examples", "**", "*.bas"), recursive=True))
    for f in files:
        src = open(f).read()
        bad = None
        n = 0
        for filt, init in itertools.product((False, True), (False, True)):
            try:
                text = convert(src, filter_unused_linenum=filt, initialize_vars=init)
            except Exception as e:  # noqa  (refusals are C15's business)
                continue
            n += 1
            try:
                check_program(text)
            except Bad as e:
                bad = "%s (filter=%s, initialize=%s)" % (e, filt, init)
                break
        out.append(ob("examples/" + os.path.relpath(f, root), bad is None, "well-formed output", bad or "%d conversions well-formed" % n,
                      bounded="bundled example program, 4 option combinations"))
    return out


def statement_forms_well_formed():
    """every statement form of the catalogue (the C08 forms) and a list of shapes that exercise the emitters' corner cases, alone and
    after an empty DATA item switched the read filter on: the emitted program passes the BASIC09 recogniser, holds no internal object's
    repr and no line ends in a dangling ` \\ ` separator"""
    from coco.b09.compiler import convert
    from tx.p_c08 import FORMS
    extra = ["A=-X^2", "B=+(A+1)^B", "PRINT -X^2;+Y^2", "IF -X^2>1 THEN 10", "FOR I=-X^2 TO +Y^2:NEXT", "A(-X^2)=1", "A=NOT B^2", "A=-(-X)", "A=- -X^2",
             "READ A$,B$,C$", "IF Q=1 THEN READ D$", "READ A$:READ B,C$", "READ A", "READ A(1),B$(2)", "INPUT A$,B$", "LINE INPUT A$", "DATA X,,Z", "DATA ,", "DATA", "RESTORE:READ A$",
             "ON A GOSUB 10", "ON INT(A) GOTO 10,10", "IF A=1 THEN 10 ELSE IF A=2 THEN 10", "IF INT(A)=1 THEN 10 ELSE IF INT(B)=2 THEN 10 ELSE PRINT INT(C)", "PRINT", "PRINT ;", "PRINT ,", "PRINT A;", "PRINT@1,A;B$;",
             "A$=INKEY$", "A=ASC(B$)", "A=LEN(B$)+ASC(C$)+VAL(D$)", "HSCREEN 2:HCLS:HCOLOR 1,2", "PLAY A$+\"C\"", "DIM A(2),B$(3),C", "CLS:CLS 3:END:STOP", "ON ERR GOTO 10", "ON BRK GOTO 10"]
    forms = sorted(set(f.replace("{_}", "").replace("{+}", " ") for f in FORMS)) + extra
    out = []
    for frame_name, frame in {"alone": "10 %s\n20 END\n", "with the read filter on": "5 DATA 1,,\"x\"\n10 %s\n20 END\n", "in an IF arm": "10 IF Q1=1 THEN %s\n20 END\n"}.items():
        def run(frame=frame, frame_name=frame_name):
            bad, n = [], 0
            for form in forms:
                for kw in (dict(add_standard_prefix=False), dict(initialize_vars=True, default_str_storage=80)):
                    try:
                        text = convert(frame % form, **kw)
                    except Exception:  # noqa  (refusals are C15's business)
                        continue
                    n += 1
                    why = None
                    m = re.search(r".{0,20}(object at 0x|<coco\.|<class |Node\().{0,20}", text)
                    if m:
                        why = "internal object in the text: %r" % m.group(0)
                    elif re.search(r"(?m)\\\s*$", text):
                        why = "a line ends in a dangling separator: %r" % re.search(r"(?m)^.*\\\s*$", text).group(0)[:80]
                    else:
                        try:
                            check_program(text)
                        except Bad as e:
                            why = str(e)[:100]
                    if why:
                        bad.append("%r: %s" % (frame % form, why))
            return [ob("forms/%s" % frame_name, not bad and n > 100, "well-formed output for every accepted form", bad[:3] or "%d conversions" % n, bounded="%d statement forms x 2 option sets" % len(forms))]
        out += guarded("forms/%s" % frame_name, run)
    return out


_class_obligations = obligations


def obligations():  # noqa: F811
    from tx.p_c05 import share, read_targets_through_filter
    from tx import pipeline
    return _class_obligations() + _examples() + statement_forms_well_formed() + share("read/", read_targets_through_filter()) + pipeline.obligations()


def fornext_closers():
    """FOR/NEXT closers in the right order: shared with C02 (the bare-NEXT patcher's stack invariant)"""
    from tx import p_c02
    return [dict(o, id="closers/" + o["id"]) for o in p_c02.next_patcher()]


_c07_all = obligations


def quote_balance():
    """whatever the source does with quotes, a converted program has closed string literals only: on every emitted line the
    number of double quotes is even (BasicLiteral writes its text between quotes without escaping, so no terminal may let a
    quote into a text)"""
    from coco.b09.compiler import convert

    def run():
        res = []
        sources = ['DATA "HELLO', 'DATA AB"CD,3', 'DATA "A","B', 'DATA X,"Y",Z"', 'A$="X', 'A$(1)="FOO', 'LET B$(I,J)="X Y', 'PRINT "A":Q$(2)="TAIL', "REM it\"s", "'5\" disk",
                   'PRINT "a";"b', 'INPUT "p";A$', 'A$="a"+"b', 'IF A=1 THEN N$(K)="YES', 'DATA \'"\'', 'DATA A\'B"C',
                   # characters str.splitlines() treats as line ends, inside literals / comments / DATA items
                   'A$="AB\x0cCD":PRINT "x\x1cy"', "REM page\x0bbreak\x85more", 'DATA "A\x1dB",C\x1eD', 'A$="AB\u2028CD"',
                   # values, not objects, reach the text
                   "DATA &HFF,,3:READ A,B,C", "DATA &H8000,\"x\",:READ A,B$,C"]
        for src in sources:
            bad = []
            for opts in (dict(), dict(default_str_storage=80, initialize_vars=True), dict(output_dependencies=True, procname="p")):
                try:
                    text = convert("10 %s\n20 END\n" % src, add_standard_prefix=False, **opts)
                except Exception:  # noqa  (refused: nothing is emitted)
                    continue
                if opts.get("output_dependencies"):
                    text = text[text.rfind("procedure p"):]
                if re.search(r"object at 0x|<coco\.|<class |Node\(|RegexNode", text):
                    bad.append("an internal object's repr is part of the output: %r" % re.search(r".{0,30}(object at 0x|<coco\.|<class |Node\().{0,30}", text).group(0))
                for line in text.split("\n"):
                    code = line
                    if "(*" in code:        # comments carry source text verbatim; the statement before them is judged
                        code = code.split("(*")[0]
                    if code.count('"') % 2:
                        bad.append(line)
            res.append(ob("quotes/%s" % src, not bad, "refused, or every emitted statement has closed literals", bad[:2] or "ok"))
        return res
    return guarded("quotes", run)


def library_blocks():
    """the bundled procedures are emitted text too: in every procedure of the real ecb.b09 the block keywords balance
    (IF..THEN/ENDIF, FOR/NEXT, WHILE/ENDWHILE, LOOP/ENDLOOP, REPEAT/UNTIL, EXITIF/ENDEXIT) and there is no `ELSE IF` on one line
    (BASIC09 has none)"""
    import re
    from tx import ecbsig

    def run():
        sig = ecbsig.parse()
        bad = []
        pairs = {"IF": "ENDIF", "FOR": "NEXT", "WHILE": "ENDWHILE", "LOOP": "ENDLOOP", "REPEAT": "UNTIL", "EXITIF": "ENDEXIT"}
        for name, proc in sig.items():
            stack = []
            for raw in proc["body"]:
                l = re.sub(r'"[^"]*"', '""', raw.strip())
                l = re.split(r"\(\*|\bREM\b", l, flags=re.I)[0].strip()
                for part in [x.strip() for x in l.split("\\")]:
                    u = part.upper()
                    w = re.split(r"[\s(]", u, 1)[0] if u else ""
                    if re.match(r"^\d+\s", u):
                        u = re.sub(r"^\d+\s+", "", u)
                        w = re.split(r"[\s(]", u, 1)[0] if u else ""
                    if w == "IF" and re.search(r"\bTHEN\s+\d+$", u):
                        pass            # one-line IF ... THEN <line number>
                    elif w == "IF":
                        stack.append("IF")      # block IF (a statement may follow THEN on the same line; a later ENDIF closes it)
                    elif w == "ELSE":
                        if u != "ELSE":
                            bad.append("%s: `%s` - BASIC09 has no ELSE IF / statement after ELSE on the same line" % (name, part))
                        elif not stack or stack[-1] != "IF":
                            bad.append("%s: ELSE outside an IF block" % name)
                    elif w in ("FOR", "WHILE", "LOOP", "REPEAT", "EXITIF"):
                        stack.append(w)
                    elif w in pairs.values():
                        opener = next(k for k, v in pairs.items() if v == w)
                        if not stack or stack[-1] != opener:
                            bad.append("%s: %s closes %s" % (name, w, stack[-1] if stack else "nothing"))
                        else:
                            stack.pop()
            if stack:
                bad.append("%s: %s never closed" % (name, ", ".join(stack)))
        return [ob("library/block keywords balance in every bundled procedure", not bad and len(sig) > 40, "balanced in all %d procedures" % len(sig), bad[:4] or "balanced")]
    return guarded("library/blocks", run)


def bundled_text():
    """the bundled procedures are part of the emitted text: no template tag (`STRING<<>>`) of the tool survives in any
    bundle at any string size (shared with C13)"""
    from tx import p_c13
    return [dict(o, id="bundle/" + o["id"]) for o in p_c13.real_library() if "placeholder" in o["id"] or o["id"].startswith("library")]


def obligations():  # noqa: F811
    from tx import p_c13
    from tx.p_c05 import share
    from tx.p_c05 import direct_delivery
    shared = share("bundle-text/", p_c13.user_text() + p_c13.line_splitting()) + share("statement-text/", direct_delivery())
    return _c07_all() + fornext_closers() + bundled_text() + quote_balance() + library_blocks() + shared
