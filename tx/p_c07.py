"""C07: whatever the real classes print (on opaque, non-empty operands) is structurally well-formed BASIC09."""
from tx import cases, opaque
from tx.b09syntax import Bad, check_expr, check_program
from tx.opaque import OpaqueUse
from tx.p_c05 import ob
from tx.run_cases import norm

EXPR_CLASSES = {"BasicArrayRef", "BasicBinaryExp", "BasicBooleanBinaryExp", "BasicOpExp", "BasicBooleanOpExp", "BasicParenExp", "BasicBooleanParenExp",
                "BasicLiteral", "BasicVar", "BasicFunctionCall", "BasicFunctionalExpression", "BasicJoystkExpression", "BasicVarptrExpression", "HexLiteral",
                "BasicFunctionalExpression.statement"}
SKIP = {"BasicOperator", "BasicExpressionList", "BasicPrintArgs"}


def obligations():
    out = []
    for c in cases.CASES:
        if "C07" not in c.props or c.cls in SKIP or (c.cls == "BasicGoto" and c.label == "implicit"):
            continue
        oid = "wf/%s/%s" % (c.cls, c.label)
        opaque.reset()
        try:
            obj, _ = c.build()
            text = norm(obj.basic09_text(c.indent))
        except OpaqueUse as e:
            out.append(ob(oid, False, "well-formed text", "opaque part inspected: %s" % e))
            continue
        except Exception as e:  # noqa
            out.append(ob(oid, False, "well-formed text", "%s: %s" % (type(e).__name__, e)))
            continue
        try:
            if c.cls == "BasicFunctionalExpression.statement":
                check_program("RUN x" if False else text if text.lower().startswith("run ") else "RUN " + text)
            elif c.cls in EXPR_CLASSES:
                if text == "":
                    raise Bad("an expression printed as the empty text")
                check_expr(text)
            else:
                check_program(text)
            out.append(ob(oid, True, "well-formed", text))
        except Bad as e:
            out.append(ob(oid, False, "structurally well-formed BASIC09", "%s   in   %s" % (e, text)))
    # un-named functional expression: prints nothing - it must never be printed before the hoisting pass names it;
    # the pass pipeline guarantees that (C05), but an operand that no pass reaches stays empty: covered by the V findings.
    return out


def _examples():
    """Bounded stand-in (labelled as such): the bundled example programs, all filter/initialise combinations."""
    import glob
    import itertools
    import os
    import coco
    from coco.b09.compiler import convert
    root = os.path.dirname(os.path.dirname(os.path.abspath(coco.__file__)))
    out = []
    files = sorted(glob.glob(os.path.join(root, "examples", "**", "*.bas"), recursive=True))
    for f in files:
        src = open(f).read()
        bad = None
        n = 0
        for filt, init in itertools.product((False, True), (False, True)):
            try:
                text = convert(src, filter_unused_linenum=filt, initialize_vars=init)
            except Exception as e:  # noqa  (refusals are C15's business)
                continue
            n += 1
            try:
                check_program(text)
            except Bad as e:
                bad = "%s (filter=%s, initialize=%s)" % (e, filt, init)
                break
        out.append(ob("examples/" + os.path.relpath(f, root), bad is None, "well-formed output", bad or "%d conversions well-formed" % n,
                      bounded="bundled example program, 4 option combinations"))
    return out


_class_obligations = obligations


def obligations():  # noqa: F811
    return _class_obligations() + _examples()


def fornext_closers():
    """FOR/NEXT closers in the right order: shared with C02 (the bare-NEXT patcher's stack invariant)"""
    from tx import p_c02
    return [dict(o, id="closers/" + o["id"]) for o in p_c02.next_patcher()]


_c07_all = obligations


def bundled_text():
    """the bundled procedures are part of the emitted text: no template tag (`STRING<<>>`) of the tool survives in any
    bundle at any string size (shared with C13)"""
    from tx import p_c13
    return [dict(o, id="bundle/" + o["id"]) for o in p_c13.real_library() if "placeholder" in o["id"] or o["id"].startswith("library")]


def obligations():  # noqa: F811
    return _c07_all() + fornext_closers() + bundled_text()
