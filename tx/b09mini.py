"""A concrete evaluator for the BASIC09 subset used by the helper procedures of C20, run on the *real* text of
coco/resources/ecb.b09.  Semantics assumed (Microware BASIC09 reference manual; listed in the evidence):
FOR tests before the first iteration and evaluates its bounds once; the control variable is of its declared type;
MID$(s, start, len) is 1-based and clips at the end of s, start < 1 is an error; assignment to STRING[n] truncates
to n characters (plain STRING is 32); parameters are passed by reference; FIX truncates toward zero; string
comparison is exact; VAL reads a decimal numeral (error 67 otherwise)."""
import re


class B09Error(Exception):
    def __init__(self, code):
        Exception.__init__(self, "ERROR %s" % code)
        self.code = code


TOK = re.compile(r'\s*(?:(?P<str>"[^"]*")|(?P<num>\d+\.?\d*(?:[eE][-+]?\d+)?|\.\d+)|(?P<op><>|<=|>=|:=|[-+*/=<>(),])|(?P<id>[A-Za-z_][A-Za-z_0-9]*\$?))')


def tokenize(s):
    out, i = [], 0
    s = s.strip()
    while i < len(s):
        m = TOK.match(s, i)
        if not m or m.end() == i:
            raise SyntaxError("cannot tokenize %r at %d" % (s, i))
        i = m.end()
        k = m.lastgroup
        out.append((k, m.group(k)))
    return out


class Proc:
    def __init__(self, name, lines, str_capacity=32):
        self.name = name
        self.lines = [l.strip() for l in lines if l.strip() and not l.strip().upper().startswith("REM")]
        self.cap = str_capacity
        self.params = []   # (name, type)
        self.types = {}
        body = []
        for l in self.lines:
            m = re.match(r"(?i)^(param|dim)\s+(.*)$", l)
            if m:
                for group in m.group(2).split(";"):
                    names, typ = group.rsplit(":", 1)
                    for n in names.split(","):
                        n = n.strip().lower()
                        self.types[n] = typ.strip().lower()
                        if m.group(1).lower() == "param":
                            self.params.append(n)
            elif re.match(r"(?i)^type\s", l):
                continue
            else:
                body.append(l)
        self.body = body

    def capacity(self, var):
        t = self.types.get(var, "real")
        m = re.match(r"string\[(\d+)\]", t)
        if m:
            return int(m.group(1))
        if t.startswith("string<<>>"):
            return self.cap
        if t.startswith("string"):
            return 32
        return None

    def run(self, *args):
        env = dict(zip(self.params, args))
        for v, t in self.types.items():
            if v not in env:
                env[v] = "" if t.startswith("string") else 0
        self.exec_block(self.body, env)
        return [env[p] for p in self.params]

    # ---- statements
    def exec_block(self, lines, env):
        i = 0
        while i < len(lines):
            l = lines[i]
            u = l.upper()
            if u.startswith("IF ") and u.endswith(" THEN"):
                j, depth, els = i + 1, 1, None
                while True:
                    w = lines[j].upper()
                    if w.startswith("IF ") and w.endswith(" THEN"):
                        depth += 1
                    elif w == "ENDIF":
                        depth -= 1
                        if depth == 0:
                            break
                    elif w == "ELSE" and depth == 1:
                        els = j
                    j += 1
                cond = self.eval(tokenize(l[3:-5]), env)
                if cond:
                    self.exec_block(lines[i + 1:els if els is not None else j], env)
                elif els is not None:
                    self.exec_block(lines[els + 1:j], env)
                i = j + 1
            elif u.startswith("FOR "):
                m = re.match(r"(?i)^for\s+(\w+)\s*=\s*(.*?)\s+to\s+(.*?)(?:\s+step\s+(.*))?$", l)
                var = m.group(1).lower()
                j, depth = i + 1, 1
                while True:
                    w = lines[j].upper()
                    if w.startswith("FOR "):
                        depth += 1
                    elif w.startswith("NEXT"):
                        depth -= 1
                        if depth == 0:
                            break
                    j += 1
                start = self.eval(tokenize(m.group(2)), env)
                limit = self.eval(tokenize(m.group(3)), env)
                step = self.eval(tokenize(m.group(4)), env) if m.group(4) else 1
                integer = self.types.get(var, "real") in ("integer", "byte")
                v = self.coerce(var, start)
                guard = 0
                while (v <= limit if step >= 0 else v >= limit):
                    env[var] = v
                    self.exec_block(lines[i + 1:j], env)
                    v = self.coerce(var, env[var] + step)
                    guard += 1
                    if guard > 100000:
                        raise RuntimeError("FOR does not terminate")
                env[var] = v
                i = j + 1
            elif u.startswith("WHILE ") and u.endswith(" DO"):
                j, depth = i + 1, 1
                while True:
                    w = lines[j].upper()
                    if w.startswith("WHILE "):
                        depth += 1
                    elif w == "ENDWHILE":
                        depth -= 1
                        if depth == 0:
                            break
                    j += 1
                guard = 0
                while self.eval(tokenize(l[6:-3]), env):
                    self.exec_block(lines[i + 1:j], env)
                    guard += 1
                    if guard > 100000:
                        raise RuntimeError("WHILE does not terminate")
                i = j + 1
            elif u.startswith("ERROR "):
                raise B09Error(int(u.split()[1]))
            elif u.startswith("ON ERROR"):
                m = re.match(r"^ON ERROR GOTO (\d+)$", u)
                env["__on_error__"] = m.group(1) if m else None
                i += 1
            elif re.match(r"^\d+\s+REM", u):
                i += 1
            else:
                m = re.match(r"^(\w+\$?)\s*:?=\s*(.*)$", l)
                if not m:
                    raise SyntaxError("statement not in the subset: %r" % l)
                var = m.group(1).lower()
                try:
                    env[var] = self.coerce(var, self.eval(tokenize(m.group(2)), env))
                except B09Error:
                    # ON ERROR GOTO <label>: control continues at the labelled line of this block (the form the library uses)
                    lab = env.get("__on_error__")
                    tgt = next((k for k, x in enumerate(lines) if lab and re.match(r"^%s\b" % lab, x)), None)
                    if tgt is None:
                        raise
                    i = tgt
                    continue
                i += 1

    def coerce(self, var, val):
        cap = self.capacity(var)
        if cap is not None:
            if not isinstance(val, str):
                raise B09Error(71)
            return val[:cap]
        t = self.types.get(var, "real")
        if isinstance(val, str):
            raise B09Error(71)
        if t in ("integer", "byte"):
            return int(val + 0.5) if val >= 0 else -int(-val + 0.5)   # BASIC09 rounds real -> integer
        return float(val)

    # ---- expressions: OR < AND < NOT < relational < + - < * /
    def eval(self, t, env):
        self.t, self.i, self.env = t, 0, env
        v = self.e_or()
        if self.i != len(self.t):
            raise SyntaxError("trailing tokens %r" % (self.t[self.i:],))
        return v

    def peek(self):
        return self.t[self.i] if self.i < len(self.t) else (None, None)

    def word(self, w):
        k, v = self.peek()
        if k == "id" and v.upper() == w:
            self.i += 1
            return True
        return False

    def e_or(self):
        v = self.e_and()
        while self.word("OR"):
            r = self.e_and()
            v = bool(v) or bool(r)
        return v

    def e_and(self):
        v = self.e_not()
        while self.word("AND"):
            r = self.e_not()
            v = bool(v) and bool(r)
        return v

    def e_not(self):
        if self.word("NOT"):
            return not self.e_not()
        return self.e_rel()

    def e_rel(self):
        v = self.e_sum()
        k, op = self.peek()
        if op in ("=", "<>", "<", ">", "<=", ">="):
            self.i += 1
            r = self.e_sum()
            return {"=": v == r, "<>": v != r, "<": v < r, ">": v > r, "<=": v <= r, ">=": v >= r}[op]
        return v

    def e_sum(self):
        v = self.e_prod()
        while self.peek()[1] in ("+", "-"):
            op = self.t[self.i][1]
            self.i += 1
            r = self.e_prod()
            v = v + r if op == "+" else v - r
        return v

    def e_prod(self):
        v = self.e_atom()
        while self.peek()[1] in ("*", "/"):
            op = self.t[self.i][1]
            self.i += 1
            r = self.e_atom()
            v = v * r if op == "*" else v / r
        return v

    def e_atom(self):
        k, v = self.peek()
        self.i += 1
        if k == "str":
            return v[1:-1]
        if k == "num":
            return float(v) if ("." in v or "e" in v.lower()) else int(v)
        if v == "-":
            return -self.e_atom()
        if v == "(":
            r = self.e_or()
            self.i += 1
            return r
        if k == "id":
            name = v.lower()
            if self.peek()[1] == "(":
                self.i += 1
                args = [self.e_or()]
                while self.peek()[1] == ",":
                    self.i += 1
                    args.append(self.e_or())
                self.i += 1
                return self.call(name, args)
            if name in self.env:
                return self.env[name]
            raise NameError(name)
        raise SyntaxError("unexpected %r" % (v,))

    def call(self, f, a):
        if f == "len":
            return len(a[0])
        if f == "mid$":
            s, start, ln = a[0], int(a[1]), int(a[2])
            if start < 1 or ln < 0:
                raise B09Error(67)
            return s[start - 1:start - 1 + ln]
        if f == "left$":
            return a[0][:max(0, int(a[1]))]
        if f == "right$":
            n = max(0, int(a[1]))
            return a[0][len(a[0]) - n:] if n else ""
        if f in ("fix",):
            return int(a[0])
        if f == "int":
            # BASIC09's INT drops the fraction (the library's own ecb_int is written around that: it subtracts 0.999999999 from
            # negative arguments first); for the non-negative arguments of the other helpers this equals floor
            return float(int(a[0]))
        if f == "val":
            try:
                return float(a[0])
            except ValueError:
                raise B09Error(67)
        if f == "float":
            return float(a[0])
        if f == "str$":
            return repr(float(a[0]))
        raise NameError("function %s is outside the subset" % f)


def load(text, name, str_capacity=32):
    lines = re.split(r"\r\n|\r|\n", text)
    out, on = [], False
    for l in lines:
        m = re.match(r"(?i)^procedure\s+(\w+)\s*$", l.strip())
        if m:
            on = m.group(1).lower() == name.lower()
            continue
        if on:
            out.append(l)
    if not out:
        raise KeyError(name)
    return Proc(name, out, str_capacity)
