"""C06-specific obligations: step contracts of the line-reference passes, the 32700 dispatcher, and the wiring of
convert() (executed on injected ASTs whose statement contents are opaque)."""
import copy
import itertools
import re

from coco.b09 import compiler, elements as E, error_handler, visitors as V
from tx import opaque
from tx.inject import convert_ast
from tx.opaque import OpqExp, OpqStmt, mark
from tx.p_c05 import ob, guarded
from tx.run_cases import norm


def snapshot(line):
    return dict((k, v) for k, v in line.__dict__.items())


def reference_steps():
    out = []

    def run():
        res = []
        for label, mk, exp in [("GOTO", lambda: E.BasicGoto(40, False), {40}), ("GOSUB", lambda: E.BasicGoto(41, False, is_gosub=True), {41}),
                               ("THEN-line", lambda: E.BasicGoto(42, True), {42}), ("ON-ERR", lambda: E.BasicOnErrGoStatement(0), {0}),
                               ("ON-BRK", lambda: E.BasicOnBrkGoStatement(43), {43}),
                               ("ON-GOTO", lambda: E.BasicOnGoStatement(OpqExp("e"), [7, 0, 7, 99]), {7, 0, 99}),
                               ("ON-GOSUB", lambda: E.BasicOnGoStatement(OpqExp("e"), [5], is_gosub=True), {5})]:
            v = V.LineReferenceVisitor()
            v.references.add(1000)
            st = mk()
            v.visit_go_statement(st)
            res.append(ob("refs/step-%s" % label, v.references == exp | {1000}, sorted(exp | {1000}), sorted(v.references),
                          "visit_go_statement adds exactly the targets of the statement"))
        return res
    out += guarded("refs/step", run)

    def filt():
        res = []
        for num, inref, start in itertools.product((None, 0, 10, 32699), (False, True), (False, True)):
            refs = {num} if (inref and num is not None) else set()
            refs |= {555}
            for cls, expect in (("LineNumberFilterVisitor", lambda: (num in refs)),
                                ("LineZeroFilterVisitor", lambda: (num in refs) if num == 0 else start)):
                line = E.BasicLine(num, OpqStmt("s"))
                line.set_is_referenced(start)
                before = snapshot(line)
                getattr(V, cls)(refs).visit_line(line)
                after = snapshot(line)
                frame = all(after[k] is before[k] or after[k] == before[k] for k in before if k != "_is_referenced") and set(after) == set(before)
                res.append(ob("filter/%s/num=%s,inrefs=%d,was=%d" % (cls, num, inref, start), line.is_referenced == expect() and frame and refs == ({num, 555} if (inref and num is not None) else {555}),
                              dict(is_referenced=expect(), frame="only _is_referenced written"), dict(is_referenced=line.is_referenced, frame=frame)))
        return res
    out += guarded("filter/step", filt)

    def checker():
        res = []
        for num in (None, 0, 1, 32699, 32700, 63999):
            refs = {0, 32699, 7}
            keep = set(refs)
            c = V.LineNumberCheckerVisitor(refs)
            raised = None
            try:
                c.visit_line(E.BasicLine(num, OpqStmt("s")))
            except V.LineNumberTooLargeException:
                raised = "LineNumberTooLargeException"
            want_raise = num is not None and num > 32699
            ok = (raised is not None) == want_raise and refs == keep and (want_raise or c.undefined_lines == keep - {num})
            res.append(ob("checker/num=%s" % num, ok, dict(raises=want_raise, undefined=sorted(keep - {num}) if not want_raise else None),
                          dict(raised=raised, undefined=sorted(c.undefined_lines)), "refuses labels above 32699; a seen label is no longer undefined; the caller's set is not modified"))
        return res
    out += guarded("checker/step", checker)

    def collector():
        res = []
        for T, other in ((E.BasicOnErrGoStatement, E.BasicOnBrkGoStatement), (E.BasicOnBrkGoStatement, E.BasicOnErrGoStatement)):
            c = V.StatementCollectorVisitor(T)
            a, b2, o = T(5), T(6), other(7)
            for s in (a, o, OpqStmt("x"), b2):
                c.visit_statement(s)
            res.append(ob("collector/%s" % T.__name__, c.statements == [a, b2], "exactly the statements of that exact type, in order", [type(s).__name__ for s in c.statements]))
        return res
    out += guarded("collector/step", collector)
    return out


def dispatcher():
    def run():
        res = []
        for brk, err in itertools.product((None, 0, 50), (None, 0, 70)):
            lines = error_handler.generate(brk_line=brk, err_line=err)
            got = [(l.num, norm(l.basic09_text(0))) for l in lines]
            exp = []
            if brk is not None or err is not None:
                exp.append((32700, "32700 ERNO := errnum"))
                if brk is not None:
                    exp.append((None, "IF ERNO = 2 THEN %d" % brk))
                if err is not None:
                    exp.append((None, "GOTO %d" % err))
            res.append(ob("dispatcher/brk=%s,err=%s" % (brk, err), got == exp, exp, got,
                          "one line 32700 iff a handler exists; break (error 2) goes to the BRK target first, everything else to the ERR target"))
        return res
    return guarded("dispatcher", run)


def S(*tags):
    return E.BasicStatements([OpqStmt(t) if isinstance(t, str) else t for t in tags])


def wiring():
    """convert(): the passes are applied to the whole program in an order that makes labels, refusals and the
    dispatcher come out as the property says.  Statement contents are opaque; line numbers take boundary values."""
    out = []

    def prog1(zero_referenced):
        def f():
            inner_if = E.BasicIf(OpqExp("c"), E.BasicGoto(30, True))
            on = E.BasicOnGoStatement(OpqExp("e"), [0, 30] if zero_referenced else [30, 30], is_gosub=True)
            ifelse = E.BasicIfElse(if_exp=OpqExp("c2"), then_statements=S("t"), else_if_statements=[E.BasicIf(OpqExp("c3"), S(E.BasicGoto(20, False)))],
                                   else_statements=S(on))
            return [E.BasicLine(0, S("s0")), E.BasicLine(10, S("s1", inner_if)), E.BasicLine(20, S(ifelse)), E.BasicLine(30, S("s3")), E.BasicLine(40, S("s4"))]
        return f

    def labels_of(text):
        labs = []
        for ln in text.split("\n"):
            head = ln.strip().split(" ")[0]
            if head.isdigit():
                labs.append(int(head))
        return labs

    def run():
        res = []
        for filt, zref, prefix in itertools.product((False, True), (False, True), (False, True)):
            opaque.reset()
            text = convert_ast(prog1(zref), add_standard_prefix=prefix, filter_unused_linenum=filt)
            if prefix:
                text = text[text.index("⟦s0@"):] if "⟦s0@" in text and not re.search(r"(?m)^0 ", text) else text[re.search(r"(?m)^0 ", text).start():] if re.search(r"(?m)^0 ", text) else text
            labs = labels_of(text)
            referenced = {20, 30} | ({0} if zref else set())
            exp = sorted(referenced) if filt else sorted({10, 20, 30, 40} | ({0} if zref else set()))
            stm = [t for t in ("s0", "s1", "t", "s3", "s4") if str(mark(t, 0))[:-3] not in text and ("⟦%s@" % t) not in text]
            res.append(ob("wiring/labels,filter=%d,zero_referenced=%d%s" % (filt, zref, ",prefix" if prefix else ""), sorted(labs) == exp and not stm, dict(labels=exp, statements_lost=[]),
                          dict(labels=sorted(labs), statements_lost=stm),
                          "with filtering exactly the referenced labels stay; without it only an unreferenced line 0 loses its label; no statement disappears"))
        # refusals
        def missing():
            return [E.BasicLine(10, S(E.BasicIf(OpqExp("c"), S(E.BasicGoto(99, False))))), E.BasicLine(20, S("s"))]

        def toolarge():
            return [E.BasicLine(10, S("s")), E.BasicLine(32700, S("s2"))]

        def twoerr():
            return [E.BasicLine(10, S(E.BasicOnErrGoStatement(20))), E.BasicLine(20, S(E.BasicIf(OpqExp("c"), S(E.BasicOnErrGoStatement(10)))))]

        def twobrk():
            return [E.BasicLine(10, S(E.BasicOnBrkGoStatement(20))), E.BasicLine(20, S(E.BasicOnBrkGoStatement(10)))]

        def one_each():
            return [E.BasicLine(10, S(E.BasicOnBrkGoStatement(20), E.BasicOnErrGoStatement(0))), E.BasicLine(0, S("h0")), E.BasicLine(20, S("h1"))]
        for name, fac, exc in (("missing-target", missing, compiler.ParseError), ("label-above-32699", toolarge, V.LineNumberTooLargeException),
                               ("two-ON-ERR", twoerr, compiler.ParseError), ("two-ON-BRK", twobrk, compiler.ParseError), ("one-ERR-one-BRK", one_each, None)):
            for filt, suffix in itertools.product((False, True), (True, False)):
                got = None
                text = None
                try:
                    text = convert_ast(fac, add_standard_prefix=False, filter_unused_linenum=filt, add_suffix=suffix)
                except Exception as e:  # noqa
                    got = type(e)
                ok = got is exc
                detail = "refused with %s" % exc.__name__ if exc else "converted"
                if exc is None and ok and suffix:
                    tail = [norm(x) for x in text.strip("\n").split("\n")[-3:]]
                    ok = tail == ["32700 ERNO := errnum", "IF ERNO = 2 THEN 20", "GOTO 0"] and text.count("32700 ") == 1
                    got = tail
                # a refusal is a statement about the program, not about the options it is converted with
                res.append(ob("wiring/%s,filter=%d%s" % (name, filt, "" if suffix else ",no-suffix"), ok, detail, getattr(got, "__name__", got)))
        return res
    out += guarded("wiring", run)
    return out


def targets_through_convert():
    """through the real convert(): a line that holds no statement (`20 :`, a bare `40`) is still a line - if something jumps to it
    its label is emitted; and a jump to a line that does not exist is refused whatever the number (also above the label limit,
    where the generated dispatcher lives)"""
    from coco.b09.compiler import convert
    from coco.b09 import compiler as C2

    def run():
        res = []
        src = "10 GOTO 20\n20 :\n30 GOSUB 40\n40 \n50 IF A THEN 60\n60 ::\n70 ON A GOTO 80,20\n80 \n90 ON ERR GOTO 95\n95 :\n"
        for filt, suffix in itertools.product((False, True), (False, True)):
            try:
                text = convert(src, add_standard_prefix=False, filter_unused_linenum=filt, add_suffix=suffix)
                labs = sorted(int(l.split(" ")[0]) for l in text.split("\n") if l.split(" ")[0].isdigit())
            except Exception as e:  # noqa
                labs = "%s: %s" % (type(e).__name__, str(e)[:80])
            targets = [20, 40, 60, 80, 95] + ([32700] if suffix else [])
            want = sorted(targets if filt else [10, 20, 30, 40, 50, 60, 70, 80, 90, 95] + ([32700] if suffix else []))
            res.append(ob("targets/empty lines keep their labels,filter=%d,suffix=%d" % (filt, suffix), labs == want, want, labs))
        # a bare line number in any arm of any IF form is a jump to that line: the emitted text jumps to exactly the lines the source
        # names, and every source line is labelled once
        chains = {"THEN n ELSE IF THEN m ELSE k": ("IF A=1 THEN 100 ELSE IF A=2 THEN 200 ELSE 10", [10, 100, 200]), "THEN n ELSE IF THEN m": ("IF A=1 THEN 100 ELSE IF A=2 THEN 200", [100, 200]),
                  "THEN n ELSE m": ("IF A=1 THEN 100 ELSE 200", [100, 200]), "THEN n": ("IF A=1 THEN 100", [100]), "THEN stmt ELSE IF THEN m ELSE IF THEN n ELSE stmt": ("IF A=1 THEN B=1 ELSE IF A=2 THEN 200 ELSE IF A=3 THEN 100 ELSE B=2", [100, 200]),
                  "THEN n ELSE IF THEN stmt ELSE m": ("IF A=1 THEN 100 ELSE IF A=2 THEN B=1 ELSE 200", [100, 200]), "THEN GOTO n ELSE IF THEN GOTO m ELSE GOTO k": ("IF A=1 THEN GOTO 100 ELSE IF A=2 THEN GOTO 200 ELSE GOTO 10", [10, 100, 200]),
                  "THEN n:stmt ELSE m": ("IF A=1 THEN B=1:GOTO 100 ELSE 200", [100, 200]), "nested THEN IF THEN n ELSE m": ("IF A=1 THEN IF B=2 THEN 100 ELSE 200", [100, 200])}
        for name, (stmt, want) in chains.items():
            for filt in (False, True):
                try:
                    text = convert("10 %s\n100 END\n200 END\n" % stmt, add_standard_prefix=False, filter_unused_linenum=filt)
                    jumps = sorted(int(x) for x in re.findall(r"(?:GOTO|THEN) (\d+)", text))
                    labels = sorted(int(x) for x in re.findall(r"(?m)^(\d+)(?: |$)", text))
                    got = dict(jumps=jumps, labels=labels)
                except Exception as e:  # noqa
                    got = "%s: %s" % (type(e).__name__, str(e)[:60])
                exp = dict(jumps=want, labels=[10, 100, 200] if not filt else sorted(set(want)))
                res.append(ob("targets/bare line numbers in IF arms/%s,filter=%d" % (name, filt), got == exp, exp, got, stmt))
        # a line number is the number written, however large: numbers above the label limit are refused, never wrapped onto a small one
        for name, prog in {"GOTO 65546 with a line 10": "10 GOTO 65546\n", "GOSUB 65546": "10 GOSUB 65546\n20 END\n", "line 65546": "10 A=1\n65546 PRINT\n", "line 98235": "98235 END\n", "THEN 65546": "10 IF A=1 THEN 65546\n",
                           "ON A GOTO 10,65546": "10 ON A GOTO 10,65546\n", "ON ERR GOTO 65546": "10 ON ERR GOTO 65546\n", "GOTO 4294967306": "10 GOTO 4294967306\n", "line 32700": "32700 END\n", "GOTO 131082": "10 GOTO 131082\n"}.items():
            for filt, suffix in itertools.product((False, True), (False, True)):
                try:
                    text = convert(prog, add_standard_prefix=False, filter_unused_linenum=filt, add_suffix=suffix)
                    got = "converted: " + text.strip().split("\n")[0][:40]
                except Exception as e:  # noqa
                    got = "refused (%s)" % type(e).__name__
                res.append(ob("targets/numbers above the limit are refused/%s,filter=%d,suffix=%d" % (name, filt, suffix), got.startswith("refused (ParseError") or got.startswith("refused (LineNumberTooLarge"), "refused", got, prog))
        # more than one ON ERR / ON BRK statement is refused - however many different lines they name
        for name, prog, refused in (("two ON ERR, same target", "10 ON ERR GOTO 100\n20 ON ERR GOTO 100\n100 END\n", True), ("two ON ERR, two targets", "10 ON ERR GOTO 100\n20 ON ERR GOTO 200\n100 END\n200 END\n", True),
                                    ("two ON ERR on one line", "10 ON ERR GOTO 100:ON ERR GOTO 100\n100 END\n", True), ("second ON ERR in an IF arm", "10 ON ERR GOTO 100\n20 IF A=1 THEN ON ERR GOTO 100\n100 END\n", True),
                                    ("two ON BRK, same target", "10 ON BRK GOTO 100\n20 ON BRK GOTO 100\n100 END\n", True), ("three ON BRK, two targets", "10 ON BRK GOTO 100\n20 ON BRK GOTO 200\n30 ON BRK GOTO 100\n100 END\n200 END\n", True),
                                    ("one ON ERR and one ON BRK, same target", "10 ON ERR GOTO 100\n20 ON BRK GOTO 100\n100 END\n", False), ("one ON ERR", "10 ON ERR GOTO 100\n100 END\n", False)):
            for filt, suffix in itertools.product((False, True), (False, True)):
                try:
                    convert(prog, add_standard_prefix=False, filter_unused_linenum=filt, add_suffix=suffix)
                    got = "converted"
                except Exception as e:  # noqa
                    got = "refused (%s)" % type(e).__name__
                res.append(ob("targets/at most one handler of each kind/%s,filter=%d,suffix=%d" % (name, filt, suffix), got.startswith("refused (ParseError") == refused and (refused or got == "converted"),
                              "refused" if refused else "converted", got, prog))
        # with the filter on precisely the unreferenced labels disappear: all of them when nothing jumps
        for name, prog, keep in (("no jump at all", "0 A=1\n10 B=2\n20 PRINT A;B\n", []), ("no jump, comment and DATA lines", "5 REM x\n10 DATA 1,2\n20 READ A\n", []), ("one jump", "10 A=1\n20 GOTO 10\n30 END\n", ["10"]),
                                 ("only a handler", "10 ON ERR GOTO 30\n20 A=1\n30 END\n", ["30"]), ("only a RESTORE-free ON GOSUB", "10 ON A GOSUB 30\n20 END\n30 RETURN\n", ["30"])):
            try:
                text = convert(prog, add_standard_prefix=False, filter_unused_linenum=True, add_suffix=False)
                got = [m for m in re.findall(r"(?m)^(\d+) ", text)]
            except Exception as e:  # noqa
                got = "%s: %s" % (type(e).__name__, str(e)[:60])
            res.append(ob("targets/filter keeps exactly the referenced labels/%s" % name, got == keep, keep, got, prog))
        # ON lists are positional: the k-th entry is the target for selector value k - repeated entries stay where they are
        for src, want in {"ON A GOTO 100,100,200": "ON A GOTO 100, 100, 200", "ON A GOSUB 200,100,200,100": "ON A GOSUB 200, 100, 200, 100", "ON A GOTO 100": "ON A GOTO 100",
                          "ON A GOTO 200,200": "ON A GOTO 200, 200"}.items():
            for filt in (False, True):
                try:
                    text = convert("10 %s\n100 END\n200 END\n" % src, add_standard_prefix=False, filter_unused_linenum=filt)
                    got = next((l for l in text.split("\n") if "ON A" in l), text).split(" ", 1)[1] if not filt else next((l for l in text.split("\n") if "ON A" in l), text).strip()
                    got = got[got.index("ON A"):]
                except Exception as e:  # noqa
                    got = "%s: %s" % (type(e).__name__, str(e)[:80])
                res.append(ob("targets/ON list keeps every entry in place/%s,filter=%d" % (src, filt), got == want, want, got))
        for name, prog in {"GOTO 40000": "10 GOTO 40000\n20 END\n", "GOSUB 32700": "10 GOSUB 32700\n", "ON list entry 32768": "10 ON A GOTO 10,10,32768\n",
                           "THEN 50000": "10 IF A=1 THEN 50000\n", "ELSE 32701 nested": "10 IF A=1 THEN B=1 ELSE IF B=2 THEN 10 ELSE 32701\n",
                           "ON ERR GOTO 33000": "10 ON ERR GOTO 33000\n", "ON BRK GOTO 65535": "10 ON BRK GOTO 65535\n",
                           "GOTO 32700 with a handler": "10 ON ERR GOTO 10\n20 GOTO 32700\n", "GOTO 500": "10 GOTO 500\n"}.items():
            for filt, suffix in itertools.product((False, True), (False, True)):
                try:
                    convert(prog, filter_unused_linenum=filt, add_suffix=suffix)
                    got = "converted"
                except C2.ParseError:
                    got = "refused"
                except Exception as e:  # noqa
                    got = type(e).__name__
                res.append(ob("targets/undefined %s,filter=%d,suffix=%d" % (name, filt, suffix), got == "refused", "refused (undefined line)", got))
        return res
    return guarded("targets", run)


def obligations():
    # "with unused-label filtering on": through the command line that is -l and nothing else (shared with C11)
    from tx.p_c05 import share
    from tx.p_c11 import command_line
    return reference_steps() + dispatcher() + wiring() + targets_through_convert() + share("cli/", command_line())
