"""Reader for the declarations of coco/resources/ecb.b09 (family F5): procedure names, ordered parameters with their
kinds (string / numeric / record type), TYPE declarations with their field lists, and the RUN call sites inside."""
import os
import re


def library_text():
    import coco
    return open(os.path.join(os.path.dirname(coco.__file__), "resources", "ecb.b09")).read()


def kind_of(typ):
    t = typ.strip().lower()
    if t.startswith("string"):
        return "string"
    if t in ("real", "integer", "byte", "boolean"):
        return "numeric"
    return "record:" + t


def parse(text=None):
    text = library_text() if text is None else text
    procs = {}
    cur = None
    for raw in re.split(r"[\r\n]", text):
        line = raw.strip()
        m = re.match(r"(?i)^procedure\s+(\w+)\s*$", line)
        if m:
            cur = dict(name=m.group(1), params=[], types={}, runs=[], body=[])
            procs[cur["name"]] = cur
            continue
        if cur is None:
            continue
        cur["body"].append(raw)
        m = re.match(r"(?i)^param\s+(.*)$", line)
        if m:
            # param a, b: real; c: string[80]
            for group in m.group(1).split(";"):
                if ":" not in group:
                    continue
                names, typ = group.rsplit(":", 1)
                for n in names.split(","):
                    if n.strip():
                        cur["params"].append((n.strip(), typ.strip(), kind_of(typ)))
            continue
        m = re.match(r"(?i)^type\s+(\w+)\s*=\s*(.*)$", line)
        if m:
            cur["types"][m.group(1).lower()] = re.sub(r"\s+", "", m.group(2).lower())
            continue
        clean = re.sub(r'"[^"]*"', '""', line)
        clean = re.sub(r"\(\*.*?(\*\)|$)", " ", clean)          # a remark calls nothing
        if re.match(r"(?i)^\s*rem\b", clean):
            clean = ""
        for rm in re.finditer(r'(?i)\brun\s+(\w+)\s*', clean):
            j = rm.end()
            args = ""
            if j < len(clean) and clean[j] == "(":
                depth = 0
                for k in range(j, len(clean)):
                    if clean[k] == "(":
                        depth += 1
                    elif clean[k] == ")":
                        depth -= 1
                        if depth == 0:
                            args = clean[j:k + 1]
                            break
            cur["runs"].append((rm.group(1), args))
    return procs


if __name__ == "__main__":
    for n, p in parse().items():
        print(n, [(a, k) for a, _, k in p["params"]])
