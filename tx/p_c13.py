"""C13: the emitted bundle contains exactly the procedures the program needs.
Closure / order / multiplicity of ProcedureBank on every small call graph (bounded-exhaustive, labelled) and on the
real library for every root; the three regular expressions against their contracts (bounded-exhaustive); placeholder
substitution complete on the real library; user text containing RUN / procedure / the placeholder inside literals
comes through unchanged and creates no edge."""
import itertools
import re

from coco.b09 import procbank
from coco.b09.compiler import convert
from coco.b09.procbank import ProcedureBank
from tx.tier import THOROUGH, pick
from tx import ecbsig
from tx.p_c05 import ob, guarded

SYSTEM = {"gfx2", "gfx", "syscall", "inkey"}


def reach(edges, root):
    seen, todo = set(), [root]
    while todo:
        x = todo.pop()
        if x in seen:
            continue
        seen.add(x)
        todo += list(edges.get(x, ()))
    return seen


def small_graphs():
    """all digraphs on 4 nodes (self loops and cycles included): result = reflexive-transitive closure, sorted, root last"""
    def run():
        names = ["pa", "pb", "pc", "pd"]
        pairs = [(a, b) for a in names for b in names]
        bad = []
        n = 0
        for mask in range(0, 1 << 16, 1):
            if not THOROUGH and mask % 7 and mask % 11:      # 1/7 + 1/11 of all 65536 graphs plus ... (thorough: all)
                if mask > 4096:
                    continue
            edges = {a: set() for a in names}
            for k, (a, b) in enumerate(pairs):
                if mask >> k & 1:
                    edges[a].add(b)
            text = ""
            for a in names:
                # the calls of one procedure stand on separate lines, or on one line joined with ` \ ` (the way hoisted calls are emitted), in both spellings of the keyword
                calls = ["%s %s" % (("run", "RUN")[(mask >> 3 ^ k) & 1], b) for k, b in enumerate(sorted(edges[a]))]
                text += "procedure %s\n" % a + ("".join(c + "\n" for c in calls) if mask % 3 else " \\ ".join(calls) + "\n") + "end\n"
            bank = ProcedureBank()
            bank.add_from_str(text)
            out = bank.get_procedure_and_dependencies("pa")
            heads = re.findall(r"(?m)^procedure (\w+)", out)
            want = sorted(reach(edges, "pa") - {"pa"}) + ["pa"]
            n += 1
            if heads != want:
                bad.append((sorted((a, sorted(b)) for a, b in edges.items()), heads, want))
                if len(bad) > 3:
                    break
        return [ob("closure/all sampled digraphs on 4 procedures", not bad and n > 10000, "headers == sorted(reachable - root) + [root], each once", bad[:2] or "%d graphs" % n,
                   bounded=pick("all 4096 graphs with the first 12 edge slots plus every 7th / 11th of the remaining 61440", "all 65536 digraphs on 4 procedures"))]
    return guarded("closure", run)


def real_library():
    def run():
        res = []
        sig = ecbsig.parse()
        edges = {p: {c for c, _ in v["runs"]} for p, v in sig.items()}
        lower = {p.lower(): p for p in sig}
        bad_close, left_tags, n = [], [], 0
        for size in (32, 80):
            bank = ProcedureBank(default_str_storage=size)
            bank.add_from_resource("ecb.b09")
            for root in sig:
                out = bank.get_procedure_and_dependencies(root)
                heads = re.findall(r"(?mi)^procedure (\w+)", out)
                want = sorted((reach(edges, root) - {root}) & set(sig)) + [root]
                n += 1
                if heads != want:
                    bad_close.append((root, heads[:6], want[:6]))
                if "<<>>" in out:
                    left_tags.append((root, size, len(re.findall(r"<<>>", out))))
                raw = "\n".join(bank._name_to_procedure[h] for h in heads)
                ntags = len(re.findall(r"(?i):\s*STRING<<>>", raw))
                if size != 32 and out.count("[80]") - raw.count("[80]") != ntags:
                    left_tags.append((root, size, "%d placeholders, %d sized declarations added" % (ntags, out.count("[80]") - raw.count("[80]"))))
                # every RUN in the bundle names a procedure in the bundle or a system module
                for callee in re.findall(r'(?i)\brun\s+(\w+)', re.sub(r'"[^"]*"', '""', out)):
                    if callee not in heads and callee.lower() not in SYSTEM:
                        bad_close.append((root, "RUN %s not in bundle" % callee))
        res.append(ob("library/closure, order, multiplicity for every root", not bad_close and n == 2 * len(sig), "sorted closure + root, once each", bad_close[:3] or "%d roots x 2 sizes" % len(sig)))
        res.append(ob("library/every placeholder replaced", not left_tags, "no STRING<<>> left in any bundle", left_tags[:4] or "none left"))
        return res
    return guarded("library", run)


def regex_contracts():
    """the bank's three expressions agree with their contracts on all short strings (bounded-exhaustive)"""
    def run():
        res = []
        # invoked(line): names after RUN that lie outside string literals (even number of quotes to the end of the line)
        alpha = ["RUN ", "x", '"', " ", "y1"]
        bad = []
        n = 0
        for k in range(1, pick(7, 9)):
            for parts in itertools.product(alpha, repeat=k):
                line = "".join(parts)
                n += 1
                got = procbank.INVOKED_PROCEDURE_NAMES.findall(line)
                exp = []
                for m in re.finditer(r"(?i)RUN\s+(\w+)", line):
                    if line[m.end():].count('"') % 2 == 0:
                        exp.append(m.group(1))
                # overlapping matches: findall consumes; compare as the contract does (non-overlapping scan)
                if got != exp:
                    bad.append((line, got, exp))
        res.append(ob("regex/INVOKED_PROCEDURE_NAMES", not bad, "RUN <name> counted iff an even number of quotes follows on the line", bad[:3] or "%d lines" % n, bounded="all strings of up to %d tokens over %r" % (pick(6, 8), alpha)))
        alpha = [": STRING<<>>", ":STRING<<>>", '"', " ", "x"]
        bad = []
        n = 0
        for k in range(1, pick(6, 8)):
            for parts in itertools.product(alpha, repeat=k):
                text = "".join(parts)
                n += 1
                got = [m.start() for m in procbank.STR_STORAGE_TAG.finditer(text)]
                exp = [m.start() for m in re.finditer(r"(?i):\s*STRING<<>>", text) if text[m.end():].count('"') % 2 == 0]
                if got != exp:
                    bad.append((text, got, exp))
        res.append(ob("regex/STR_STORAGE_TAG", not bad, "the tag counted iff an even number of quotes follows", bad[:3] or "%d texts" % n, bounded="all strings of up to %d tokens over %r" % (pick(5, 7), alpha)))
        heads = {"procedure abc": "abc", "PROCEDURE  x_1  ": "x_1", " procedure abc": None, "procedure": None, "procedure a b": None, "procedure a-b": "a-b", "procedure a.b": None, "procedure -": "-", 'print "procedure abc"': None,
                 "procedure 3d": "3d", "Procedure _p": "_p"}
        bad = [(l, (procbank.PROCEDURE_START_PREFIX.match(l) or [None, None])[1], w) for l, w in heads.items() if ((procbank.PROCEDURE_START_PREFIX.match(l) or [None, None])[1]) != w]
        res.append(ob("regex/PROCEDURE_START_PREFIX", not bad, "a header line is `procedure <name>` alone on its line, <name> over the characters the tool's procedure-name pattern admits (word characters and `-`)", bad or "ok"))
        return res
    return guarded("regex", run)


def user_text():
    def run():
        res = []
        cases = {
            "RUN inside a string literal": ('10 PRINT "RUN ecb_play NOW"\n', ["ecb_play"], 'RUN ecb_play NOW'),
            "procedure inside a string literal": ('10 A$="procedure fake"\n', ["fake"], "procedure fake"),
            "placeholder inside a string literal": ('10 A$="S: STRING<<>>":B$=STRING$(3,"x")\n', [], "S: STRING<<>>"),
            "DATA items that look like calls": ('10 DATA RUN ecb_play,"RUN ecb_hdraw"\n20 READ A$,B$\n', ["ecb_play", "ecb_hdraw"], "RUN ecb_play"),
            "RUN line with an empty literal": ('10 C=VAL(""):PLAY ""\n', [], None),
            "form feed and other separators inside a literal": ('10 PRINT "PAGE 1\x0cprocedure eject\x0c";\n20 SOUND 1,2\n30 DATA "A\x0bB\x1cC\x85D"\n', ["eject"], 'PAGE 1\x0cprocedure eject\x0c'),
            "comment with an odd quote": ('10 B$=STRING$(3,"x")\n20 REM it"s\n', [], 'it"s'),
            "comment that mentions a call": ('10 REM RUN ecb_play LATER\n', ["ecb_play"], "RUN ecb_play LATER"),
        }
        for name, (src, must_not_bundle, must_contain) in cases.items():
            out = convert(src, output_dependencies=True, procname="p", default_str_storage=80)
            heads = re.findall(r"(?mi)^procedure (\w+)", out)
            probs = []
            for p in must_not_bundle:
                if p in heads:
                    probs.append("%s bundled although it is only mentioned inside a literal" % p)
            if heads.count("p") != 1 or heads[-1] != "p":
                probs.append("program's own procedure not last / not once: %s" % heads[-3:])
            if must_contain and must_contain not in out:
                probs.append("user text %r changed" % must_contain)
            if re.search(r"(?i)string<<>>", re.sub(r'"[^"]*"', '""', out)):
                probs.append("a placeholder was left in the bundle")
            body = re.sub(r'"[^"]*"', '""', out)
            for callee in re.findall(r"(?i)\brun\s+(\w+)", body):
                if callee not in heads and callee.lower() not in SYSTEM:
                    probs.append("RUN %s has no procedure in the bundle" % callee)
            res.append(ob("user-text/%s" % name, not probs, "literals unchanged, no spurious or missing procedure", probs or "ok"))
        return res
    return guarded("user-text", run)


def requested_size_reaches_bundle():
    """through convert(): every placeholder of every bundled procedure carries the *requested* size, for sizes on both
    sides of BASIC09's default (the bank is told the size the program was converted with)"""
    def run():
        res = []
        src = '10 A$=STRING$(3,"x"):PLAY "C":X=INSTR(1,A$,"x"):PRINT HEX$(3);STR$(X)\n'
        for size in (1, 16, 31, 32, 33, 80, 255):
            out = convert(src, output_dependencies=True, procname="p", default_str_storage=size)
            heads = re.findall(r"(?mi)^procedure (\w+)", out)
            bank_raw = ProcedureBank(default_str_storage=32)
            bank_raw.add_from_resource("ecb.b09")
            ntags = sum(len(re.findall(r"(?i):\s*STRING<<>>", bank_raw._name_to_procedure[h])) for h in heads if h in bank_raw._name_to_procedure)
            lib_part = out[:out.rfind("procedure p")]
            got = len(re.findall(r"(?i):\s*STRING\[%d\]" % size, lib_part)) if size != 32 else ntags - len(re.findall(r"(?i)STRING<<>>", lib_part))
            pre = sum(len(re.findall(r"(?i):\s*STRING\[%d\]" % size, bank_raw._name_to_procedure[h])) for h in heads if h in bank_raw._name_to_procedure) if size != 32 else 0
            res.append(ob("bundle/requested size %d reaches every placeholder" % size, ntags > 0 and got - pre == ntags, "%d placeholders sized [%d]" % (ntags, size),
                          "%d sized declarations (library text itself has %d)" % (got, pre)))
        # ... and for every procedure of the real library, however its placeholder lines are spelled
        for size in (1, 80):
            bank = ProcedureBank(default_str_storage=size)
            bank.add_from_resource("ecb.b09")
            left = []
            for h in sorted(bank._name_to_procedure):
                text = bank.get_procedure_and_dependencies(h)
                for line in text.split("\n"):
                    outside = re.sub(r'"[^"]*"', '""', line)
                    if "<<>>" in outside:
                        left.append("%s: %s" % (h, line.strip()[:60]))
            res.append(ob("bundle/no placeholder is left in any library procedure, size %d" % size, not left and len(bank._name_to_procedure) > 20, "every STRING<<>> replaced", left[:4] or "%d procedures" % len(bank._name_to_procedure)))
        return res
    return guarded("bundle/requested size", run)


def bundle_order_through_convert():
    """through convert(): the dependencies come in the order of their *names* (the library spells some headers `PROCEDURE`, some
    `procedure`: the spelling of the header is not part of the name), each once, the program's own procedure last"""
    def run():
        res = []
        progs = {"VAL and CLS": '10 A=VAL("1"):CLS\n', "PLAY, HDRAW, HPUT, STRING$": '10 PLAY "C":HDRAW "U1":HBUFF 1,10:HPUT(0,0)-(1,1),1,PSET:A$=STRING$(2,"x")\n',
                 "HPAINT, HGET, INSTR, SOUND": '10 HPAINT(1,2):HBUFF 1,10:HGET(0,0)-(1,1),1:A=INSTR(1,"a","a"):SOUND 1,1\n'}
        for name, src in progs.items():
            out = convert(src, output_dependencies=True, procname="zz_main")
            heads = re.findall(r"(?mi)^procedure (\w+)", out)
            want = sorted(set(heads) - {"zz_main"}) + ["zz_main"]
            mixed = len({re.match(r"(?m)^(procedure|PROCEDURE)", l).group(1) for l in out.split("\n") if re.match(r"^(procedure|PROCEDURE) ", l)}) == 2
            res.append(ob("bundle/order by name through convert()/%s" % name, heads == want and mixed, "sorted by name, root last (bundle mixes both header spellings)", heads if heads != want else "sorted" if mixed else "bundle does not mix header spellings (vacuous)"))
        return res
    return guarded("bundle/order", run)


def bundle_closed_through_convert():
    """through convert(): whatever the program calls - upper- or lower-case RUN, one or several calls on a line, with or without the standard
    prologue - the bundle holds exactly the closure of the calls that stand in the program's own procedure"""
    def run():
        res = []
        sig = ecbsig.parse()
        edges = {p: {c for c, _ in v["runs"]} for p, v in sig.items()}
        progs = {"lower-case calls only": '10 A$=STRING$(3,"x"):LOCATE 1,2\n', "PLAY alone": '10 PLAY "C"\n', "two calls on one line": "10 B$=HEX$(X)+STR$(X)\n",
                 "three calls on one line": '10 PRINT HEX$(1);STR$(2);INSTR(1,"a","a")\n', "upper-case calls only": "10 CLS:SOUND 1,1\n", "no call": "10 A=1\n",
                 "call in a nested IF": '10 IF A=1 THEN IF B=2 THEN PLAY "C" ELSE HSCREEN 2\n'}
        for name, src in progs.items():
            for prefix in (False, True):
                out = convert(src, output_dependencies=True, procname="zz_main", add_standard_prefix=prefix)
                heads = re.findall(r"(?mi)^procedure ([\w-]+)", out)
                own = out[out.lower().rfind("procedure zz_main"):]
                direct = {c for c in re.findall(r"(?i)\brun\s+(\w+)", re.sub(r'"[^"]*"', '""', own)) if c in sig}
                want = sorted(set().union(set(), *[reach(edges, d) for d in direct]) & set(sig)) + ["zz_main"]
                res.append(ob("bundle/closure of the program's calls through convert()/%s,prefix=%d" % (name, prefix), heads == want and (bool(direct) or name == "no call" and not prefix or prefix), want, heads, src))
        # a procedure name the tool does not accept falls back to `program`: the bundle is the one of that name, not an empty text
        src = '10 PLAY "C":A$=STRING$(3,"x")\n20 PRINT "x RUN ecb_hline"\n'
        ref = convert(src, output_dependencies=True, procname="program")
        for name in ("a$", "my prog", "game.v2", "a.b", "", "x" * 40, "-", "3d", "P_1"):
            try:
                out = convert(src, output_dependencies=True, procname=name)
            except Exception as e:  # noqa
                out = "%s: %s" % (type(e).__name__, str(e)[:80])
            heads = re.findall(r"(?mi)^procedure ([\w-]+)", out)
            root = heads[-1] if heads else None
            same = out.replace("procedure %s" % root, "procedure program") == ref if root else False
            res.append(ob("bundle/procedure name %r: the same bundle under the accepted name or under `program`" % name, same and root in (name, "program"), "the bundle of `program` with the root header renamed at most",
                          dict(root=root, headers=len(heads), length=len(out)) if not same else "same", src))
        return res
    return guarded("bundle/closed", run)


def line_splitting():
    """the bank splits its input at CR and LF only: every other character of a procedure comes through unchanged"""
    def run():
        body = 'print "a\x0bb\x0cc\x1cd\x1de\x1ef\x85g\u2028h\u2029i"'
        bank = ProcedureBank()
        bank.add_from_str("procedure p\n" + body + "\nrun q\nprocedure q\nend\n")
        out = bank.get_procedure_and_dependencies("p")
        return [ob("bank/splits lines at CR and LF only", body in out and re.findall(r"(?m)^procedure (\w+)", out) == ["q", "p"], "procedure text unchanged, headers [q, p]", out)]
    return guarded("bank/lines", run)


def history():
    """a bundle depends on the program alone: after another program was converted under the same procedure name, the
    bundle is still exactly the closure of *this* program's calls"""
    def run():
        sig = ecbsig.parse()
        edges = {p: {c for c, _ in v["runs"]} for p, v in sig.items()}
        big = '10 PLAY "C":A$=STRING$(3,"x"):HSCREEN 2:X=VAL("1")\n'
        small = "10 CLS\n"
        kw = dict(output_dependencies=True, procname="main")
        convert(big, **kw)
        out = convert(small, **kw)
        heads = re.findall(r"(?mi)^procedure (\w+)", out)
        direct = {c for c in re.findall(r"(?i)\brun\s+(\w+)", convert(small, add_standard_prefix=True)) if c in sig}
        want = sorted(set().union(*[reach(edges, d) for d in direct]) & set(sig)) + ["main"]
        return [ob("bundle/independent of earlier conversions", heads == want, want, heads, bounded="one sequence of two conversions under the same procedure name")]
    return guarded("bundle/history", run)


def shared_state():
    # the bundle is a function of this program and the options: nothing outlives a conversion (shared with C12)
    from tx import p_c12
    return [dict(o, id="state/" + o["id"]) for o in p_c12.persistent_state()]


def obligations():
    return small_graphs() + real_library() + regex_contracts() + user_text() + requested_size_reaches_bundle() + bundle_order_through_convert() + bundle_closed_through_convert() + line_splitting() + history() + shared_state()
