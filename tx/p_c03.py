"""C03: arrays, DATA/READ, PRINT, INPUT keep their meaning - the per-function facts that meaning rests on.
(arrays: C10's bound obligations are shared; here: `base 0`, initialisation coverage, DATA item forms and order,
the empty-item protocol, INPUT prompts, the string-function spelling table)"""
import itertools
import re

from coco.b09 import elements as E, visitors as V, grammar as G
from coco.b09.compiler import convert
from tx import f2, opaque
from coco.b09.grammar import grammar
from coco.b09.compiler import convert
from tx.inject import convert_ast
from tx.opaque import OpqExp, OpqStmt
from tx.p_c05 import ob, guarded
from tx.p_c10 import aref, dim_contract
from tx.run_cases import norm


def initialisation():
    def run():
        res = []
        # every scalar shown to the pass is assigned before the first source line, once, sorted; DIMensioned names excluded
        v = V.VarInitializerVisitor()
        for nm in ("B", "A$", "I", "A", "B", "Z9", "tmp_1", "display", "play", "pid", "erno", "tmp_1$", "tmp_12"):
            v.visit_var(E.BasicVar(nm, nm.endswith("$")))
        v.visit_for_statement(E.BasicForStatement(E.BasicVar("I"), OpqExp("a"), OpqExp("b")))
        v.visit_statement(E.BasicDimStatement([E.BasicVar("A$", True), aref("Q", (3,))]))
        got = [norm(l.basic09_text(0)) for l in v.assignment_lines]
        exp = ["A := 0.0\nB := 0.0\nI := 0.0\nZ9 := 0.0"]
        res.append(ob("init/scalars: all user scalars, FOR variables included, DIMensioned excluded", got == exp, exp, got))
        v2 = V.VarInitializerVisitor()
        res.append(ob("init/no variables, no line", v2.assignment_lines == [], [], [l.basic09_text(0) for l in v2.assignment_lines]))
        # prologue has `base 0` whenever the standard prefix is requested
        for prefix in (False, True):
            text = convert_ast(lambda: [E.BasicLine(10, E.BasicStatements([OpqStmt("q")]))], add_standard_prefix=prefix)
            res.append(ob("init/base 0 in the prologue,prefix=%d" % prefix, ("base 0" in text.split("\n")) == prefix, prefix, "base 0" in text))
        # with initialize_vars, source DIMs and implicit DIMs get their fill loops, and the assignment line precedes the source lines
        def fac():
            return [E.BasicLine(10, E.BasicStatements([E.BasicDimStatement([aref("M", (2,))]),
                                                        E.BasicAssignment(aref("J", (1,)), E.BasicVar("X"))]))]
        text = convert_ast(fac, add_standard_prefix=False, initialize_vars=True)
        ok = ("FOR tmp_1 = 0 TO 2 \\ arr_M(tmp_1) := 0 \\ NEXT tmp_1" in text and "FOR tmp_1 = 0 TO 10 \\ arr_J(tmp_1) := 0 \\ NEXT tmp_1" in text
              and text.index("X := 0.0") < text.index("10 ") and text.index("DIM arr_J(11)") < text.index("10 "))
        res.append(ob("init/arrays 0..N filled, scalars assigned, before the first source line", ok, "fill loops for source and implicit arrays; X := 0.0 before line 10", text))
        text0 = convert_ast(fac, add_standard_prefix=False, initialize_vars=False)
        res.append(ob("init/nothing when not asked", "FOR tmp_1" not in text0 and "X := 0.0" not in text0, "no fill loops, no assignments", text0))
        return res
    return guarded("init", run)


def data_items():
    def run():
        res = []
        cases = {
            "numeric": ("DATA 1,2.5,-3", ["1.0", "2.5", "-3.0"]),
            "quoted": ('DATA "a, b","c"', ['"a, b"', '"c"']),
            "unquoted": ("DATA AB C,D", ['"AB C"', '"D"']),
            "hex": ("DATA &HFF,&H10", ["float($FF)", "float($10)"]),
            "empty-middle": ("DATA 1,,3", ["1.0", '""', "3.0"]),
            "empty-last": ("DATA 1,", ["1.0", '""']),
            "mixed order": ('DATA X,"y",3,,&H1', ['"X"', '"y"', "3.0", '""', "float($1)"]),
        }
        for name, (src, exp) in cases.items():
            st, _ = f2.build("data_statement", src, operand_rules={})
            got = [e.basic09_text(0) for e in st.exp_list.exp_list]
            res.append(ob("data/%s" % name, got == exp, exp, got, "items in textual order, each to the literal of its form"))
        # an unquoted item is the text up to the next comma, colon or line end: every other printable character is data
        bad = []
        chars = [chr(c) for c in range(0x21, 0x7F) if chr(c) not in '",:']
        for ch in chars:
            src = "DATA X%sY,Z%s" % (ch, ch)
            try:
                node = grammar["data_statement"].parse(src)
                st, _ = f2.build("data_statement", src, operand_rules={})
                got = [e.basic09_text(0) for e in st.exp_list.exp_list]
            except Exception as e:  # noqa
                got = "%s: %s" % (type(e).__name__, str(e)[:80])
            want = ['"X%sY"' % ch, '"Z%s"' % ch]
            if got != want:
                bad.append(dict(source=src, expected=want, got=got))
        res.append(ob("data/unquoted items keep every printable character", not bad, "X<c>Y and Z<c> for all %d characters" % len(chars), bad[:4] or "all kept"))
        # ... and through the statement list the item is not cut off into a comment or another statement
        bad = []
        for ch in "'!?;()=$#@":
            src = "10 DATA IT%sS,OK\n" % ch
            try:
                text = convert(src, add_standard_prefix=False, add_suffix=False)
            except Exception as e:  # noqa
                text = "%s: %s" % (type(e).__name__, str(e)[:80])
            if text.strip() != '10 DATA "IT%sS", "OK"' % ch:
                bad.append(dict(source=src, got=text))
        res.append(ob("data/unquoted item with punctuation through convert()", not bad, 'DATA "IT<c>S", "OK"', bad[:3] or "kept"))
        return res
    return guarded("data", run)


def lit(x):
    return E.BasicLiteral(x, is_str_expr=isinstance(x, str))


def empty_item_protocol():
    def run():
        res = []
        # the flag accumulates over all DATA statements of the program
        for name, stmts, want in (("empty in first of two", [[1.0, "", 3.0], [4.0, "FOO"]], True), ("empty in last", [[1.0], [""]], True),
                                  ("none", [[1.0], ["x"]], False), ("no DATA", [], False)):
            v = V.BasicEmptyDataElementVisitor()
            for items in stmts:
                v.visit_data_statement(E.BasicDataStatement(E.BasicExpressionList([lit(x) for x in items], parens=False)))
            res.append(ob("empty-flag/%s" % name, v.has_empty_data_elements == want, want, v.has_empty_data_elements))
        # patcher: every DATA literal becomes a string literal with the same spelling
        p = V.BasicReadStatementPatcherVisitor()
        d = E.BasicDataStatement(E.BasicExpressionList([lit(1.0), lit(""), lit(3.14159265), lit("x y"), lit(-7.0)], parens=False))
        p.visit_data_statement(d)
        got = [e.basic09_text(0) for e in d.exp_list.exp_list]
        res.append(ob("patcher/DATA items become strings, value preserved", got == ['"1.0"', '""', '"3.14159265"', '"x y"', '"-7.0"'], ['"1.0"', '""', '"3.14159265"', '"x y"', '"-7.0"'], got))
        # READ: numeric targets are read through fresh string temporaries and the filter, in target order; string targets directly
        r = E.BasicReadStatement([OpqExp("n1", False), OpqExp("s1", True), OpqExp("n2", False)])
        out = p.visit_read_statement(r)
        text = norm(out.basic09_text(0))
        exp = ("READ tmp_1$, %s, tmp_2$ \\ RUN ecb_read_filter(tmp_1$, %s) \\ RUN ecb_read_filter(tmp_2$, %s)"
               % (opaque.mark("s1", 0), opaque.mark("n1", 0), opaque.mark("n2", 0)))
        res.append(ob("patcher/READ through temporaries, in order", text == exp, exp, text))
        return res
    return guarded("empty-item", run)


def input_forms():
    def run():
        res = []
        forms = {'INPUT "NAME";A1$': '"NAME? "', "INPUT A1": '"? "', 'LINE INPUT "L";A1$': '"L"', "LINE INPUT A1$": '""', 'INPUT "a  b";A1,B2$': '"a  b? "'}
        for src, prompt in forms.items():
            st, _ = f2.build("input_statement", src, operand_rules={})
            text = norm(st.basic09_text(0))
            targets = re.findall(r"[A-Z][0-9]\$?", src.split(";")[-1] if ";" in src else src.split("INPUT")[-1])
            exp = "INPUT " + prompt + ", " + ", ".join(targets)
            res.append(ob("input/%s" % src, text == exp, exp, text, "same prompt (plus `? ` unless LINE INPUT), same targets in order"))
        # the prompt is content: whatever characters it holds (a final `?`, trailing or leading blanks, punctuation, empty), INPUT
        # shows it followed by `? `, LINE INPUT shows it as it is
        bad = []
        prompts = ["WHO?", "WHO??", "A?B", "?", "NAME  ", "  NAME", " ", "", "a;b", "a,b", "x:y", "ENTER (Y/N)?", "1"]
        for pr in prompts:
            for kw, want in (("INPUT", pr + "? "), ("LINE INPUT", pr)):
                src = '%s "%s";A1$' % (kw, pr)
                try:
                    st, _ = f2.build("input_statement", src, operand_rules={})
                    text = norm(st.basic09_text(0))
                except Exception as e:  # noqa
                    text = "%s: %s" % (type(e).__name__, str(e)[:80])
                if text != 'INPUT "%s", A1$' % want:
                    bad.append(dict(source=src, expected='INPUT "%s", A1$' % want, got=text))
        res.append(ob("input/prompt text of every shape", not bad, "prompt + `? ` (INPUT) or the prompt itself (LINE INPUT), character for character", bad[:4] or "%d prompts" % len(prompts)))
        # wrapper: cursor / duplex calls around the statement, statement itself unchanged
        st = E.BasicInputStatement(None, [OpqExp("r")])
        w = V.BasicInputStatementPatcherVisitor().visit_input_statement(st)
        ok = isinstance(w, E.BasicStatements) and len(w.statements) == 3 and w.statements[1] is st and norm(w.statements[0].basic09_text(0)) == "RUN _ecb_input_prefix" and norm(w.statements[2].basic09_text(0)) == "RUN _ecb_input_suffix"
        res.append(ob("input/wrapper", ok, "prefix call, the statement, suffix call", [norm(s.basic09_text(0)) for s in w.statements] if isinstance(w, E.BasicStatements) else repr(w)))
        return res
    return guarded("input", run)


def string_functions():
    """spelling table: each Color BASIC string function maps to the BASIC09 function or runtime procedure that stands for it,
    with the operands in source order"""
    def run():
        res = []
        table = {("str2_func_exp", "LEFT$(A1$,2)"): "LEFT$(A1$, 2.0)", ("str2_func_exp", "RIGHT$(A1$,2)"): "RIGHT$(A1$, 2.0)",
                 ("str3_func_exp", "MID$(A1$,2,3)"): "MID$(A1$, 2.0, 3.0)", ("func_str_exp", "LEN(A1$)"): "LEN(A1$)", ("func_str_exp", "ASC(A1$)"): "ASC(A1$)",
                 ("num_str_func_exp", "CHR$(65)"): "CHR$(65.0)", ("num_str_func_exp", "TAB(5)"): "TAB(5.0)"}
        for (rule, src), exp in table.items():
            st, _ = f2.build(rule, src, operand_rules={})
            res.append(ob("strfn/%s" % src, norm(st.basic09_text(0)) == exp, exp, norm(st.basic09_text(0))))
        return res
    return guarded("strfn", run)


def obligations():
    return dim_contract() + initialisation() + data_items() + empty_item_protocol() + input_forms() + string_functions()


def print_at():
    """PRINT@ is a one-line group (position call + PRINT): its numeric items are routed through the number formatter
    exactly like those of a plain PRINT"""
    def run():
        res = []
        for items in ("A", "A;B$;C", 'A$;"x";B'):
            plain = convert("10 PRINT %s\n" % items, add_standard_prefix=False)
            at = convert("10 PRINT@64,%s\n" % items, add_standard_prefix=False)
            body_plain = plain.split("10 ", 1)[1].strip()
            body_at = at.split("10 ", 1)[1].strip()
            ok = body_at == "RUN ecb_at(64.0) \\ " + body_plain
            res.append(ob("print-at/%s" % items, ok, "RUN ecb_at(64.0) \\ " + body_plain, body_at))
        return res
    return guarded("print-at", run)


def helpers_shared_with_c20():
    from tx import p_c20
    return [dict(o, id="helpers/" + o["id"]) for o in p_c20.string_fn() + p_c20.instr() + p_c20.read_filter() + p_c20.filter_chain()]


_c03_base = obligations


def val_helper():
    """VAL is translated to a call of the bundled ecb_val: the number a numeric text denotes, 0 for a text that is not a
    number - whatever the receiving variable held before (bounded stand-in on the real BASIC09 text)"""
    def run():
        from tx import b09mini, ecbsig
        proc = b09mini.load(ecbsig.library_text(), "ecb_val")
        cases = {"12": 12.0, "-2.5": -2.5, "1E3": 1000.0, " 7": 7.0, "": 0.0, "HELLO": 0.0, "X1": 0.0, "+": 0.0, ".": 0.0}
        bad = []
        for text, want in cases.items():
            for before in (0.0, 99.0, -7.0):
                try:
                    got = proc.run(text, before)[1]
                except Exception as e:  # noqa
                    got = "%s: %s" % (type(e).__name__, e)
                if got != want and not (text in (".", " 7") and isinstance(got, float)):
                    bad.append(dict(text=text, receiving_variable_before=before, expected=want, got=got))
        return [ob("helpers/ecb_val: value of a numeral, 0 otherwise", not bad, "VAL(text), 0 for non-numeric text", bad[:4] or "%d texts x 3 prior values" % len(cases),
                   bounded="%d texts, three prior values of the result variable" % len(cases))]
    return guarded("helpers/ecb_val", run)


def sized_temporaries():
    """results of the string functions that become procedure calls are received by temporaries; at a non-default string size
    every one of them carries the requested size (shared with C10)"""
    from tx import p_c10
    from tx.p_c05 import share
    return share("sized/", p_c10.positions())


def obligations():  # noqa: F811
    from tx.p_c05 import share
    from tx.p_c09 import initializer_kinds, initializer_positions
    return _c03_base() + print_at() + helpers_shared_with_c20() + val_helper() + sized_temporaries() + share("data-text/", __import__("tx.p_c08", fromlist=["x"]).content()) + share("kind/", __import__("tx.p_c14", fromlist=["x"]).rule_kinds()) + share("init/", initializer_kinds() + initializer_positions()) + share("read/", __import__("tx.p_c05", fromlist=["x"]).read_targets_through_filter())
