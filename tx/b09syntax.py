"""A recogniser for the *statement structure* of BASIC09 (from the Microware BASIC09 reference manual), over text
that may contain typed holes (markers of opaque parts).  Deliberately no type checking (the property excludes it).

line      := [label] statement { "\\" statement }
statement := block forms (IF/ELSE/ENDIF, LOOP/EXITIF/ENDEXIT/ENDLOOP over several lines), FOR, NEXT, GOTO, GOSUB,
             ON .. GOTO/GOSUB, ON ERROR GOTO, [LET] lvalue := expr, RUN name[(args)], PRINT, INPUT, READ, DATA, DIM,
             POKE, TYPE, BASE, PARAM, keyword statements, comments
"""
import re

STMT_TAG = re.compile(r"^(s\d*|se|p\d+|t|q\d+|h\d+|S\d*|REPL|pre\d|suf\d|ins\d)$")
TOKEN = re.compile(r'''
    (?P<hole>⟦[^⟧]*⟧) | (?P<str>"[^"\n]*") | (?P<badstr>"[^"\n]*$) | (?P<num>\d+\.?\d*(?:[eE][-+]?\d+)?|\.\d+) | (?P<hex>\$[0-9A-Fa-f]+)
  | (?P<assign>:=) | (?P<op><>|<=|>=|=<|=>|[-+*/^=<>&]) | (?P<id>[A-Za-z_][A-Za-z_0-9.]*\$?) | (?P<punct>[(),;:\[\]\\]) | (?P<ws>[ \t]+) | (?P<other>.)
''', re.X)

KEYWORD_STMTS = {"END", "RETURN", "STOP", "RESTORE", "NEXT", "ENDIF", "ENDLOOP", "ENDEXIT", "LOOP", "ELSE", "BYE", "PAUSE", "TRON", "TROFF"}
BINOPS = {"+", "-", "*", "/", "^", "=", "<>", "<", ">", "<=", ">=", "=<", "=>", "AND", "OR", "XOR", "&"}


class Bad(Exception):
    pass


def toks(s):
    out = []
    for m in TOKEN.finditer(s):
        k = m.lastgroup
        if k == "ws":
            continue
        if k in ("other", "badstr"):
            raise Bad("unexpected text %r" % m.group(0)[:20])
        out.append((k, m.group(0)))
    return out


def hole_kind(tok):
    tag = tok[1][1:-1].split("@")[0]
    if STMT_TAG.match(tag):
        return "stmt"
    if tag == "args":
        return "printlist"
    if tag == "lst":
        return "datalist"
    return "expr"


class EP:
    def __init__(self, t):
        self.t, self.i = t, 0

    def peek(self):
        return self.t[self.i] if self.i < len(self.t) else (None, None)

    def eat(self, val=None):
        k, v = self.peek()
        if k is None or (val is not None and v.upper() != val):
            raise Bad("expected %s, found %r" % (val or "a token", v))
        self.i += 1
        return k, v

    def at(self, val):
        return (self.peek()[1] or "").upper() == val

    def expr(self):
        self.unary()
        while True:
            k, v = self.peek()
            if v is not None and v.upper() in BINOPS and k in ("op", "id"):
                self.eat()
                self.unary()
            else:
                return

    def unary(self):
        k, v = self.peek()
        if v in ("-", "+") or (v or "").upper() == "NOT":
            self.eat()
            return self.unary()
        return self.primary()

    def primary(self):
        k, v = self.peek()
        if k in ("num", "str", "hex"):
            self.eat()
            return
        if k == "hole":
            if hole_kind((k, v)) != "expr":
                raise Bad("a statement where an operand is required: %s" % v)
            self.eat()
            return
        if v == "(":
            self.eat()
            self.expr()
            self.eat(")")
            return
        if k == "id" and v.upper() not in BINOPS | {"THEN", "TO", "STEP", "GOTO", "GOSUB"}:
            self.eat()
            if self.peek()[1] == "(":
                self.args()
            return
        raise Bad("operand expected, found %r" % (v,))

    def args(self):
        self.eat("(")
        self.expr()
        while self.peek()[1] == ",":
            self.eat()
            self.expr()
        self.eat(")")

    def done(self):
        if self.i != len(self.t):
            raise Bad("unexpected %r" % (self.t[self.i][1],))


def check_expr(text):
    p = EP(toks(text))
    p.expr()
    p.done()


def simple_statement(p):
    """one statement up to a backslash or end of line"""
    k, v = p.peek()
    u = (v or "").upper()
    if k is None:
        raise Bad("empty statement")
    if k == "hole":
        if hole_kind((k, v)) == "stmt":
            p.eat()
            return
    if u == "IF":
        p.eat()
        p.expr()
        p.eat("THEN")
        k2, v2 = p.peek()
        if k2 == "num":
            p.eat()
        elif k2 is not None and v2 != "\\":
            raise Bad("after THEN: a line number or end of line")
        else:
            return "IF-BLOCK"
        return
    if u == "EXITIF":
        p.eat()
        p.expr()
        p.eat("THEN")
        return "EXITIF"
    if u in ("GOTO", "GOSUB"):
        p.eat()
        if p.eat()[0] != "num":
            raise Bad("line number expected")
        return
    if u == "ON":
        p.eat()
        if p.at("ERROR"):
            p.eat()
            if p.peek()[0] is not None:
                p.eat("GOTO")
                if p.eat()[0] != "num":
                    raise Bad("line number expected")
            return
        p.expr()
        if not (p.at("GOTO") or p.at("GOSUB")):
            raise Bad("GOTO or GOSUB expected")
        p.eat()
        if p.eat()[0] != "num":
            raise Bad("line number expected")
        while p.peek()[1] == ",":
            p.eat()
            if p.eat()[0] != "num":
                raise Bad("line number expected")
        return
    if u == "FOR":
        p.eat()
        p.primary()
        p.eat("=")
        p.expr()
        p.eat("TO")
        p.expr()
        if p.at("STEP"):
            p.eat()
            p.expr()
        return "FOR"
    if u == "NEXT":
        p.eat()
        if p.peek()[0] in ("id", "hole"):
            p.primary()
        return "NEXT"
    if u == "RUN":
        p.eat()
        if p.eat()[0] != "id":
            raise Bad("procedure name expected")
        if p.peek()[1] == "(":
            p.args()
        return
    if u == "PRINT":
        p.eat()
        k2, v2 = p.peek()
        if k2 == "hole" and hole_kind((k2, v2)) == "printlist":
            p.eat()
            return
        want_item = True
        while p.peek()[0] is not None and p.peek()[1] != "\\":
            if p.peek()[1] in (";", ","):
                if want_item:
                    raise Bad("empty print item")
                p.eat()
                want_item = True
            else:
                if not want_item:
                    raise Bad("print items must be separated")
                p.expr()
                want_item = False
        return
    if u in ("INPUT", "READ"):
        p.eat()
        p.expr()
        while p.peek()[1] == ",":
            p.eat()
            p.expr()
        return
    if u == "DATA":
        p.eat()
        k2, v2 = p.peek()
        if k2 == "hole" and hole_kind((k2, v2)) == "datalist":
            p.eat()
            return
        p.expr()
        while p.peek()[1] == ",":
            p.eat()
            p.expr()
        return
    if u == "POKE":
        p.eat()
        p.expr()
        p.eat(",")
        p.expr()
        return
    if u in ("DIM", "PARAM", "TYPE"):
        # declaration: names with optional bounds, optional ": type"
        p.eat()
        while p.peek()[0] is not None and p.peek()[1] != "\\":
            p.eat()
        return
    if u == "BASE":
        p.eat()
        if p.eat()[0] != "num":
            raise Bad("BASE 0 or 1")
        return
    if u in KEYWORD_STMTS:
        p.eat()
        return u
    if u == "LET":
        p.eat()
    # assignment
    p.primary()
    if p.peek()[0] == "assign" or p.peek()[1] == "=":
        p.eat()
        p.expr()
        return
    raise Bad("statement expected at %r" % (v,))


def check_program(text):
    """Whole emitted text: lines with labels, backslash-separated statements, block structure across lines."""
    stack = []
    for raw in text.split("\n"):
        line = raw.strip()
        if not line:
            continue
        if line.lower().startswith("procedure "):
            continue
        cm = line.find("(*")
        if cm >= 0:
            # comment to end of line (or to *) ); must not start inside a string literal
            if line[:cm].count('"') % 2 == 0:
                line = line[:cm].strip()
                if line.endswith("\\"):
                    line = line[:-1].strip()
                if not line:
                    continue
        t = toks(line)
        p = EP(t)
        if p.peek()[0] == "num" and (len(t) > 1 or cm >= 0):
            p.eat()   # label
            if p.peek()[0] is None:
                continue   # a label carrying only a comment
        first = True
        while True:
            r = simple_statement(p)
            if r == "IF-BLOCK":
                stack.append("IF")
            elif r == "LOOP":
                stack.append("LOOP")
            elif r == "EXITIF":
                if not stack or stack[-1] != "LOOP":
                    raise Bad("EXITIF outside LOOP")
                stack.append("EXITIF")
            elif r == "ELSE":
                if not stack or stack[-1] != "IF":
                    raise Bad("ELSE without IF")
            elif r in ("ENDIF", "ENDEXIT", "ENDLOOP"):
                want = {"ENDIF": "IF", "ENDEXIT": "EXITIF", "ENDLOOP": "LOOP"}[r]
                if not stack or stack[-1] != want:
                    raise Bad("%s without its opener" % r)
                stack.pop()
            if p.peek()[1] == "\\":
                p.eat()
                continue
            break
        p.done()
    if stack:
        raise Bad("unclosed %s" % stack[-1])
