"""C14: every RUN the tool can emit, and every RUN inside the library, matches the callee's declared interface
(existence, arity, string / numeric / record kind per position); the record TYPEs of the prologue equal the
library's declarations field for field."""
import ast
import glob
import os
import re

import coco
from coco.b09 import elements as E
from tx import ecbsig, f2, opaque
from tx.opaque import OpqExp
from tx.p_c04 import ROWS, FUNC_ROWS, expected_text
from tx.p_c05 import ob, guarded

SYSTEM_MODULES = {"gfx2", "gfx", "syscall", "inkey"}
B09DIR = os.path.join(os.path.dirname(coco.__file__), "b09")


def emitted_run_names():
    """every `run <name>` in a string constant of coco/b09/*.py (constructor arguments, tables, f-strings)"""
    found = {}
    for path in sorted(glob.glob(os.path.join(B09DIR, "*.py"))):
        tree = ast.parse(open(path).read())
        in_fstring = {id(v) for n in ast.walk(tree) if isinstance(n, ast.JoinedStr) for v in n.values}
        for node in ast.walk(tree):
            if isinstance(node, ast.Constant) and isinstance(node.value, str) and id(node) not in in_fstring:
                for m in re.finditer(r"(?i)\brun\s+([A-Za-z_]\w*)", node.value):
                    found.setdefault(m.group(1), []).append("%s:%d" % (os.path.basename(path), node.lineno))
            if isinstance(node, ast.JoinedStr):
                text = "".join(v.value if isinstance(v, ast.Constant) else "{}" for v in node.values)
                for m in re.finditer(r"(?i)\brun\s+([A-Za-z_][\w{}]*)", text):
                    found.setdefault(m.group(1), []).append("%s:%d" % (os.path.basename(path), node.lineno))
    return found


def existence():
    sig = ecbsig.parse()
    out = []
    names = emitted_run_names()
    lower = {k.lower(): k for k in sig}
    for name, sites in sorted(names.items()):
        if "{" in name:
            # f-string with a computed part: enumerate the instances the code can produce
            if name.startswith("ecb_set_palette_"):
                cands = ["ecb_set_palette_rgb", "ecb_set_palette_cmp"]
            elif name in ("ecb_{}circle", "ecb_{}arc"):
                # hires flag: the H forms exist in the library; the non-hires names do not - they must be unreachable, i.e. nothing
                # outside the class definitions passes a `hires` argument (the default is True) - checked, not assumed
                cands = ["ecb_hcircle"] if "circle" in name else ["ecb_harc"]
                passing = []
                for path in sorted(glob.glob(os.path.join(B09DIR, "*.py"))):
                    for node in ast.walk(ast.parse(open(path).read())):
                        if isinstance(node, ast.Call):
                            for kw in node.keywords:
                                if kw.arg == "hires" and not (isinstance(kw.value, ast.Constant) and kw.value.value is True):
                                    passing.append("%s:%d hires=%s" % (os.path.basename(path), node.lineno, ast.unparse(kw.value)))
                if passing:
                    cands = cands + [c.replace("ecb_h", "ecb_") for c in cands]
                    sites = sites + passing
            else:
                out.append(ob("exists/%s" % name, False, "a call template whose instances are known to the sidecar", "unknown computed procedure name at %s" % sites))
                continue
        else:
            cands = [name]
        for c in cands:
            ok = c.lower() in lower or c.lower() in SYSTEM_MODULES
            out.append(ob("exists/%s" % c, ok, "defined in ecb.b09 or an OS-9 system module", "defined" if ok else "NOT DEFINED (emitted at %s)" % sites[:3]))
    return out


def arg_kind(text, operand_kinds):
    t = text.strip()
    m = re.match(r"^E(\d+)$", t)
    if m:
        return operand_kinds.get(t)
    if t == "R":
        return operand_kinds.get("R")
    if t.startswith('"'):
        return "string"
    if t in ("display",):
        return "record:display_t"
    if t in ("play",):
        return "record:play_t"
    return "numeric"


def object_kind(a):
    if isinstance(a, E.BasicVar):
        if a.name() == "display":
            return "record:display_t"
        if a.name() == "play":
            return "record:play_t"
        return "string" if a.name().endswith("$") else "numeric"
    if isinstance(a, E.BasicLiteral):
        return "string" if isinstance(a.literal, str) else "numeric"
    if isinstance(a, E.HexLiteral):
        return "numeric"
    if isinstance(a, (E.BasicFunctionCall, E.BasicRunCall)):
        return "numeric"   # float(display.hfore) / FLOAT(...)
    if isinstance(a, E.BasicOpExp):
        return "numeric"
    if hasattr(a, "is_str_expr"):
        return "string" if a.is_str_expr else "numeric"
    return None


def kinds_python_side():
    """kinds of the arguments the emitters pass, against the PARAM kinds"""
    sig = ecbsig.parse()
    out = []
    for rule, tmpl, proc, binding, wrap in [r + (None,) for r in ROWS + FUNC_ROWS] + [r + ("unary",) for r in ROWS + FUNC_ROWS]:
        oid = "kinds/%s/%s%s" % (proc, tmpl.replace("{e}", "e").replace("{s}", "s"), " [unary operands]" if wrap else "")

        def run(rule=rule, tmpl=tmpl, proc=proc, binding=binding, oid=oid, wrap=wrap):
            params = sig[proc]["params"]
            kinds, k = {}, 0
            for mm in re.finditer(r"\{(e|s)\}", tmpl):
                k += 1
                kinds["E%d" % k] = "string" if mm.group(1) == "s" else "numeric"
            opaque.reset()
            built, n = f2.build(rule, f2.fill(tmpl), wrap=wrap)
            if isinstance(built, E.BasicFunctionalExpression):
                kinds["R"] = "string" if built.is_str_expr else "numeric"
                nargs = len(built._args.exp_list) + 1
            else:
                args = getattr(built, "_arguments", None)
                nargs = len(args.exp_list) if args is not None else None
                if isinstance(built, E.BasicStatements):   # PRINT@ : first statement is the call
                    nargs = len(built.statements[0]._arguments.exp_list)
                if isinstance(built, (E.BasicSound, E.BasicCls, E.BasicWidthStatement)):
                    nargs = len(params)   # fixed templates, compared textually by C04
            bad = []
            if nargs is not None and nargs != len(params):
                bad.append("passes %d arguments, %s declares %d" % (nargs, proc, len(params)))
            # kinds of the arguments the real code actually built, position by position
            actual = None
            if isinstance(built, E.BasicFunctionalExpression):
                actual = list(built._args.exp_list) + [OpqExp("R", built.is_str_expr)]
            elif isinstance(built, E.BasicStatements):
                actual = list(built.statements[0]._arguments.exp_list)
            elif getattr(built, "_arguments", None) is not None:
                actual = list(built._arguments.exp_list)
            if actual is not None and len(actual) == len(params):
                for a, (pname, ptype, pkind) in zip(actual, params):
                    ak = object_kind(a)
                    if ak is not None and ak != pkind:
                        bad.append("parameter %s is %s, argument %r is %s" % (pname, pkind, a, ak))
            else:
                for pname, ptype, pkind in params:
                    if pname in binding:
                        ak = arg_kind(binding[pname], kinds)
                        if ak is not None and ak != pkind:
                            bad.append("parameter %s is %s, argument %s is %s" % (pname, pkind, binding[pname], ak))
            return [ob(oid, not bad, "arity and kinds as declared", bad or "ok")]
        out += guarded(oid, run)
    # HPRINT of a numeric item: goes through the number formatter, whose result is a string
    def hprint_num():
        opaque.reset()
        st, n = f2.build("hprint_statement", "HPRINT(A1,B2),C3")
        item = st._arguments.exp_list[2]
        return [ob("kinds/ecb_hprint/numeric item is formatted into a string", isinstance(item, E.BasicFunctionalExpression) and item.is_str_expr is True,
                   "string-kinded functional expression run ecb_str(item)", "%s is_str_expr=%s" % (type(item).__name__, getattr(item, "is_str_expr", None)))]
    out += guarded("kinds/ecb_hprint/numeric", hprint_num)
    return out


def declared_kinds(proc):
    kinds = {p.lower(): k for p, _, k in proc["params"]}
    for raw in proc["body"]:
        m = re.match(r"(?i)^\s*dim\s+(.*)$", raw.strip())
        if m:
            for group in m.group(1).split(";"):
                if ":" in group:
                    names, typ = group.rsplit(":", 1)
                    for nme in names.split(","):
                        nme = re.sub(r"\(.*\)", "", nme).strip().lower()
                        if nme:
                            kinds[nme] = ecbsig.kind_of(typ)
    return kinds


def split_args(argtext):
    s = argtext.strip()[1:-1] if argtext.strip().startswith("(") else ""
    args, depth, cur = [], 0, ""
    for ch in s:
        if ch == "(":
            depth += 1
        elif ch == ")":
            depth -= 1
        if ch == "," and depth == 0:
            args.append(cur.strip())
            cur = ""
        else:
            cur += ch
    if cur.strip():
        args.append(cur.strip())
    return args


def infer_kind(arg, kinds):
    a = arg.strip()
    if a.startswith('"') or a == '""':
        return "string"
    m = re.match(r"^([A-Za-z_]\w*)(\.\w+)?\$?$", a)
    if m:
        base = m.group(1).lower()
        if m.group(2):
            return "numeric"   # field of a record (all fields are byte/integer)
        # a name the procedure declares nowhere is BASIC09's implicit variable: REAL, or STRING with a `$`
        return kinds.get(base) or kinds.get(base + "$" if a.endswith("$") else base) or ("string" if a.endswith("$") else "numeric")
    if re.match(r"(?i)^(chr|mid|left|right|str|trim)\$\(", a):
        return "string"
    if re.match(r"^[-+]?\d", a) or re.match(r"^\$[0-9A-Fa-f]+$", a):
        return "numeric"
    if re.match(r"(?i)^(fix|int|float|len|asc|val|land|lor|lnot|peek|addr|sq|abs|mod)\(", a):
        return "numeric"
    if re.search(r"[-*/]", a) or re.match(r"^\(", a):
        return "numeric"
    return None


def library_calls():
    sig = ecbsig.parse()
    lower = {k.lower(): k for k in sig}
    out = []
    for pname, proc in sig.items():
        kinds = declared_kinds(proc)
        for k, (callee, argtext) in enumerate(proc["runs"]):
            oid = "library-call/%s#%d->%s" % (pname, k, callee)
            if callee.lower() in SYSTEM_MODULES:
                continue
            if callee.lower() not in lower:
                out.append(ob(oid, False, "callee defined in the library", "%s is not defined" % callee))
                continue
            params = sig[lower[callee.lower()]]["params"]
            args = split_args(argtext)
            bad = []
            if len(args) != len(params):
                bad.append("%d arguments, %d parameters" % (len(args), len(params)))
            else:
                for a, (pn, pt, pk) in zip(args, params):
                    ak = infer_kind(a, kinds)
                    if ak is not None and ak != pk:
                        bad.append("argument %r is %s, parameter %s is %s" % (a, ak, pn, pk))
            out.append(ob(oid, not bad, "arity and kinds as declared", bad or "ok (%s)" % argtext.strip()))
    return out


def sized_strings_stay_sized():
    """a string whose capacity follows the configured size (`string<<>>`) is passed by reference only to parameters that
    follow it too (else the callee sees a 32-byte string)"""
    sig = ecbsig.parse()
    lower = {k.lower(): k for k in sig}
    out = []
    for pname, proc in sig.items():
        types = {p.lower(): t.lower() for p, t, _ in proc["params"]}
        for raw in proc["body"]:
            m = re.match(r"(?i)^\s*dim\s+(.*)$", raw.strip())
            if m:
                for group in m.group(1).split(";"):
                    if ":" in group:
                        names, typ = group.rsplit(":", 1)
                        for nme in names.split(","):
                            types[re.sub(r"\(.*\)", "", nme).strip().lower()] = typ.strip().lower()
        for k, (callee, argtext) in enumerate(proc["runs"]):
            if callee.lower() not in lower:
                continue
            params = sig[lower[callee.lower()]]["params"]
            args = split_args(argtext)
            if len(args) != len(params):
                continue
            bad = []
            for a, (pn, pt, pk) in zip(args, params):
                if re.match(r"^[A-Za-z_]\w*\$?$", a.strip()) and "<<>>" in types.get(a.strip().lower(), "") and "<<>>" not in pt:
                    bad.append("%s (string<<>>) is passed to parameter %s: %s" % (a.strip(), pn, pt))
            out.append(ob("library-sizes/%s#%d->%s" % (pname, k, callee), not bad, "sized strings are received by sized parameters", bad or "ok"))
    return out


def record_types():
    sig = ecbsig.parse()
    out = []
    src = open(os.path.join(B09DIR, "compiler.py")).read()
    decl = {}
    for node in ast.walk(ast.parse(src)):
        if isinstance(node, ast.Constant) and isinstance(node.value, str):
            m = re.match(r"(?i)^type\s+(\w+)\s*=\s*(.*)$", node.value.strip())
            if m:
                decl[m.group(1).lower()] = re.sub(r"\s+", "", m.group(2).lower())
    # adjacent string constants are concatenated by the compiler: ast already gives the joined value
    for tname in ("display_t", "play_t"):
        if tname not in decl:
            out.append(ob("types/prologue-declares-%s" % tname, False, "a TYPE line in the prologue", "not found"))
            continue
        users = [(p, v["types"][tname]) for p, v in sig.items() if tname in v["types"]]
        diff = [(p, t) for p, t in users if t != decl[tname]]
        out.append(ob("types/%s field-for-field in %d procedures" % (tname, len(users)), not diff and users, decl[tname], diff[:3] or "identical"))
    return out


def prologue_declares_records():
    """through convert() with the standard prologue: every record variable passed to a library procedure (display, play, pid) is
    declared in the same output, whatever the spelling of the statement that needs it (spaced, packed `PLAYA$`, after THEN)"""
    from coco.b09.compiler import convert

    def run():
        res = []
        progs = ["PLAY A$", "PLAYA$", 'PLAY"CDE"', "IF A=1 THENPLAYA$", "SOUND 1,1", "SOUND1,1", "IF A=1 THEN SOUND1,1", "POKE 65497,0", "POKE65497,0", "CLS", "CLS3", "HSCREEN2",
                 "HBUFF 1,10", "HBUFF1,10", "IF A=1 THENHBUFF1,10", "HCOLOR1,2", "PRINT@3,A$", "LOCATE1,2", "A=1", "HBUFF1,10:HGET(0,0)-(1,1),1", "HBUFF 1,10:HPUT(0,0)-(1,1),1,PSET"]   # (HGET / HPUT without any HBUFF is an erroneous program: C04 ties the pid prologue to HBUFF)
        for src in progs:
            try:
                text = convert("10 %s\n" % src)
            except Exception as e:  # noqa
                continue            # refused spellings are not this obligation's business
            body = re.sub(r'"[^"]*"', '""', text)
            bad = []
            for rec, decl in (("display", r"(?im)^dim display\s*:\s*display_t"), ("play", r"(?im)^dim play\s*:\s*play_t"), ("pid", r"(?im)^dim pid\s*:\s*integer")):
                used = re.search(r"(?i)\brun \w+\([^)\n]*\b%s\b" % rec, body) or re.search(r"(?m)^\d* ?%s\." % rec, body)
                if used and not re.search(decl, body):
                    bad.append("%s is passed to a library procedure but never declared" % rec)
                if rec == "play" and re.search(r"(?m)^(?:\d+ )?play\.\w+ :=", body) and not re.search(decl, body):
                    bad.append("play.<field> is assigned but play is never declared")
            res.append(ob("prologue/%s" % src, not bad, "every record argument has its declaration in the prologue", bad or "declared"))
        return res
    return guarded("prologue", run)


def obligations():
    return existence() + kinds_python_side() + library_calls() + sized_strings_stay_sized() + record_types() + prologue_declares_records()


RULE_KINDS = [
    ("str_array_ref_exp", "A1$(1)", True), ("str_var", "A1$", True), ("str_literal", '"x"', True), ("str2_func_exp", "LEFT$(A1$,2)", True),
    ("str2_func_exp", "RIGHT$(A1$,2)", True), ("str3_func_exp", "MID$(A1$,1,2)", True), ("num_str_func_exp", "CHR$(65)", True), ("num_str_func_exp", "TAB(5)", True),
    ("num_str_func_exp_statements", "STR$(1)", True), ("num_str_func_exp_statements", "HEX$(1)", True), ("str_func_exp_statements", "INKEY$", True),
    ("string_expr", "STRING$(3,A1$)", True), ("str_exp", "A1$+B2$", True), ("str_exp", "A1$(2)", True), ("print_arg", "A1$(2)", True), ("rhs", "A1$(2)", True),
    ("array_ref_exp", "A1(1)", False), ("var", "A1", False), ("num_literal", "1.5", False), ("hex_literal", "&HFF", False), ("func_exp", "ABS(1)", False),
    ("func_str_exp", "LEN(A1$)", False), ("func_str_exp", "VAL(A1$)", False), ("func_str_exp", "ASC(A1$)", False), ("func_to_statements", "INT(1)", False),
    ("func_to_statements2", "POINT(1,2)", False), ("joystk_to_statement", "JOYSTK(0)", False), ("varptr_expr", "VARPTR(A1)", False),
    ("instr_expr", "INSTR(1,A1$,B2$)", False), ("paren_exp", "(A1)", False), ("unop_exp", "-A1", False), ("erno_expr", "ERNO", False), ("exp", "A1*2", False),
    ("print_arg", "A1(2)", False), ("rhs", "A1(2)", False), ("rhs", "A1", False), ("rhs", "A1$", True),
]


def rule_kinds():
    """F3-K against F2: the construct a rule builds is string-kinded iff the rule is a string rule"""
    out = []
    for rule, src, want in RULE_KINDS:
        oid = "rule-kind/%s/%s" % (rule, src)

        def run(rule=rule, src=src, want=want, oid=oid):
            built, _ = f2.build(rule, src, operand_rules={})
            got = getattr(built, "is_str_expr", None)
            return [ob(oid, got == want, want, got, "is_str_expr of what the real visitor builds for this rule")]
        out += guarded(oid, run)
    return out


_base_obligations = obligations


def data_filter_leaves_operands_alone():
    """the empty-DATA filter rewrites DATA items in place; an operand of a call that is spelled like a DATA item keeps its kind (with the
    parser's one-node-per-occurrence obligation, shared with C04)"""
    def run():
        from coco.b09.compiler import convert
        res = []
        src = '10 SET(1,2,3):SOUND 255,3:A=3:POKE 3,255:PALETTE 3,255\n20 DATA 3,,255\n30 READ A$\n'
        out = convert(src, add_standard_prefix=False)
        for want in ("ecb_set(1.0, 2.0, 3.0)", "ecb_sound(255.0, 3.0,", "A := 3.0", "POKE 3.0, 255.0", "ecb_set_palette(3.0, 255.0,", 'DATA "3.0", "", "255.0"'):
            res.append(ob("data-filter/operands keep their kind/%s" % want, want in out, "output contains %r" % want, out, src))
        # calls without operands stay without operands whatever else the program (or an earlier conversion) contains
        for name, src in {"INKEY$ next to INPUT": '10 A$=INKEY$:INPUT B\n20 IF INKEY$="" THEN 20\n30 LINE INPUT C$\n', "INPUT after a conversion with INKEY$": "10 INPUT B\n"}.items():
            out = convert(src, add_standard_prefix=False)
            calls = re.findall(r"RUN (_ecb_input_prefix|_ecb_input_suffix)(\([^)]*\))?", out)
            bad = [c for c in calls if c[1]]
            res.append(ob("data-filter/parameterless calls have no operands/%s" % name, calls and not bad, "RUN _ecb_input_prefix / _ecb_input_suffix without an operand list", bad or calls[:2], out))
        return res
    from tx.p_c04 import parser_builds_a_tree
    from tx.p_c05 import share
    from tx.p_c12 import persistent_state
    return guarded("data-filter", run) + share("tree/", parser_builds_a_tree()) + share("shared-objects/", persistent_state())


def obligations():  # noqa: F811
    return _base_obligations() + rule_kinds() + data_filter_leaves_operands_alone()
