"""Evaluates the class contracts of tx/cases.py on the real classes (under /venv/bin/python, tree under test first
on sys.path).  Prints one JSON document: {"obligations": [...]}."""
import json
import sys
import traceback

from tx import opaque
from tx.opaque import OpaqueUse, RecordingVisitor, TRACE


def norm(text):
    if not isinstance(text, str):
        return repr(text)
    return "\n".join(line.lstrip(" ") for line in str.__str__(text).split("\n"))


def run_case(c):
    out = []
    base = "%s/%s" % (c.cls, c.label)
    # --- T
    if c.text is not None:
        opaque.reset()
        try:
            obj, labels = c.build()
            got = obj.basic09_text(c.indent)
            exp = c.text(c.indent)
            ok = norm(got) == norm(exp)
            # every opaque part must be asked for its text exactly as often as the template shows it
            out.append(dict(id="T/" + base, ok=ok, expected=norm(exp), actual=norm(got), props=list(c.props), family="T"))
        except OpaqueUse as e:
            out.append(dict(id="T/" + base, ok=False, expected=norm(c.text(c.indent)), actual="opaque part inspected: %s" % e, props=list(c.props), family="T", opaque_use=True))
        except Exception as e:
            out.append(dict(id="T/" + base, ok=False, expected=norm(c.text(c.indent)), actual="%s: %s" % (type(e).__name__, e), props=list(c.props), family="T",
                            tb=traceback.format_exc()[-600:]))
    # --- V
    if c.trace is not None:
        opaque.reset()
        try:
            obj, labels = c.build()
            obj.visit(RecordingVisitor(labels))
            got = [list(e) for e in TRACE if e[0] in ("hook", "child")]
            exp = [list(e) for e in c.trace]
            if getattr(c, "result_var_may_repeat", False):
                def nrm(tr):
                    out2 = []
                    for e in tr:
                        if e[0] == "hook" and e[2] not in labels.values():
                            continue                       # hook of the internal call object (not a part, not the object under contract)
                        if out2 and e == ["child", "v"] and out2[-1] == e:
                            continue
                        out2.append(e)
                    return out2
                got, exp = nrm(got), nrm(exp)
            out.append(dict(id="V/" + base, ok=got == exp, expected=exp, actual=got, props=list(c.props), family="V"))
        except OpaqueUse as e:
            out.append(dict(id="V/" + base, ok=False, expected=[list(e2) for e2 in c.trace], actual="opaque part inspected: %s" % e, props=list(c.props), family="V"))
        except Exception as e:
            out.append(dict(id="V/" + base, ok=False, expected=[list(e2) for e2 in c.trace], actual="%s: %s" % (type(e).__name__, e), props=list(c.props), family="V"))
    # --- K
    if c.kind is not None:
        try:
            obj, labels = c.build()
            got = obj.is_str_expr
            out.append(dict(id="K/" + base, ok=got == c.kind, expected=c.kind, actual=got, props=list(c.props), family="K"))
        except Exception as e:
            out.append(dict(id="K/" + base, ok=False, expected=c.kind, actual="%s: %s" % (type(e).__name__, e), props=list(c.props), family="K"))
    return out


def main():
    from tx import cases
    obs = []
    for c in cases.CASES:
        obs += run_case(c)
    json.dump(dict(obligations=obs), sys.stdout)


if __name__ == "__main__":
    main()
