"""C01-specific obligations (syntactic core of expression equivalence): operand/operator order of flattened
chains, hex literal denotation, and - for every ordered pair of operators - that the text the real tool emits
re-groups under BASIC09's rules into the tree Color BASIC builds for the source (edge obligations; the edge lemma
of DESIGN.md 6.3 composes them to all expressions)."""
import itertools
import re

from coco.b09 import elements as E
from coco.b09.compiler import convert
from tx.tier import THOROUGH, pick
from tx.opaque import OpqExp, mark
from tx.p_c05 import ob, guarded
from tx.run_cases import norm


def chains():
    """from_exp_op_and_fragments: the printed text is the operands and operators in source order (so that BASIC09's
    left-to-right grouping of one precedence level is Color BASIC's)."""
    def run():
        res = []
        pats = [["+"], ["+", "-"], ["-", "+", "-"], ["*", "/", "*", "/"], ["-", "-", "+", "+", "-"], ["^", "^", "^"], ["<", "=", ">"]]
        for ops in pats:
            frags = [E.BasicBinaryExpFragment(E.BasicOperator(op), OpqExp("e%d" % (k + 1))) for k, op in enumerate(ops)]
            r = E.BasicBinaryExp.from_exp_op_and_fragments(OpqExp("e0"), "", frags)
            got = norm(r.basic09_text(0))
            exp = str(mark("e0", 0)) + "".join(" %s %s" % (op, mark("e%d" % (k + 1), 0)) for k, op in enumerate(ops))
            res.append(ob("chain/%s" % "".join(ops), got == exp, exp, got, "%d-operand chain" % (len(ops) + 1)))
        return res
    return guarded("chain", run)


def hex_values():
    def run():
        bad = []
        for v in list(range(0, pick(0x20000, 0x100000))) + [0xFFFFFF, 0x7FFFFFFF]:
            for isf in (False, True):
                t = E.HexLiteral(hex(v)[2:].upper(), is_float=isf).basic09_text(0)
                # BASIC09: $hhhh is a 16-bit signed integer constant -> usable only below $8000; else decimal
                if v < 0x8000:
                    exp = ("float($%X)" if isf else "$%X") % v
                else:
                    exp = ("%d.0" if isf else "%d") % v
                if t != exp:
                    bad.append((v, isf, t, exp))
        return [ob("hex/denotes-source-value,0..0x1FFFF", not bad, "value < $8000 -> $HEX, else decimal", bad[:4], bounded="all values 0..%s plus two large ones" % pick("0x1FFFF", "0xFFFFF"))]
    return guarded("hex", run)


# ---------------------------------------------------------------- reference parsers (sidecar tables)
CB_LEVELS = [("OR",), ("AND",), ("NOT",), ("=", "<>", "<", ">", "<=", ">=", "=<", "=>"), ("+", "-"), ("*", "/"), ("NEG",), ("^",)]
B09_LEVELS = [("OR",), ("AND",), ("=", "<>", "<", ">", "<=", ">=", "=<", "=>"), ("+", "-"), ("*", "/"), ("^",), ("NOT", "NEG")]


def tokenize(s):
    return re.findall(r"LAND|LOR|LNOT|NOT|AND|OR|<>|<=|>=|=<|=>|[A-Z]\w*\$?|\d+\.?\d*|[-+*/^=<>(),]", s)


class P:
    """precedence-climbing parser over a level table; prefix operators NOT / unary minus at their table level"""

    def __init__(self, toks, levels):
        self.t, self.i, self.levels = toks, 0, levels

    def peek(self):
        return self.t[self.i] if self.i < len(self.t) else None

    def eat(self):
        x = self.t[self.i]
        self.i += 1
        return x

    def parse(self, lv=0):
        if lv >= len(self.levels):
            return self.atom()
        ops = self.levels[lv]
        if "NOT" in ops and self.peek() == "NOT":
            self.eat()
            return ("NOT", self.parse(lv))
        if "NEG" in ops and self.peek() == "-":
            self.eat()
            return ("NEG", self.parse(lv))
        if "NEG" in ops and self.peek() == "+":
            self.eat()
            return self.parse(lv)
        left = self.parse(lv + 1)
        while self.peek() in ops and self.peek() not in ("NOT", "NEG"):
            op = self.eat()
            right = self.parse(lv + 1)
            left = (op, left, right)
        return left

    def atom(self):
        t = self.eat()
        if t == "(":
            e = self.parse(0)
            self.eat()
            return e
        if t in ("LAND", "LOR"):
            self.eat()
            a = self.parse(0)
            self.eat()
            b = self.parse(0)
            self.eat()
            return ("AND" if t == "LAND" else "OR", a, b)
        if t == "LNOT":
            self.eat()
            a = self.parse(0)
            self.eat()
            return ("NOT", a)
        if t == "NOT" or t == "-":
            # prefix operator met below its level (e.g. after a binary operator): binds as tightly as the table allows
            lvl = next(k for k, ops in enumerate(self.levels) if ("NOT" if t == "NOT" else "NEG") in ops)
            return ("NOT" if t == "NOT" else "NEG", self.parse(lvl))
        try:
            return float(t)
        except ValueError:
            return t


def tree(s, levels):
    p = P(tokenize(s), levels)
    r = p.parse(0)
    if p.i != len(p.t):
        raise ValueError("trailing tokens in %r" % s)
    return r


BIN = ["+", "-", "*", "/", "^", "=", "<", "AND", "OR"]


def sources():
    """all expressions with two operators drawn from the fragment's operator classes (ordered pairs, both
    associativity positions), prefix operators in front of and inside binary expressions"""
    out = set()
    for p, c in itertools.product(BIN, BIN):
        out.add("A %s B %s C" % (p, c))
    for u in ("-", "NOT "):
        for b in BIN:
            out.add("%sA %s B" % (u, b))
            out.add("A %s %sB" % (b, u))
        out.add("%s%sA" % (u, u))
    for p, c in itertools.product(["+", "*", "AND", "OR", "^"], repeat=2):
        out.add("A %s (B %s C)" % (p, c))
        out.add("(A %s B) %s C" % (p, c))
    return sorted(out)


def classify(src):
    toks = tokenize(src)
    if ("NOT" in toks) and any(t in ("AND", "OR") for t in toks):
        return "prefix-NOT-over-AND-OR"
    if src.startswith("-") and any(t in ("AND", "OR") for t in toks):
        return "unary-minus-over-AND-OR"
    if "-" in toks and "^" in toks and (src.startswith("-") or re.search(r"[-+*/^=<] -", src)):
        return "unary-minus-before-power"
    if "NOT" in toks:
        return "prefix-NOT-over-other"
    return None


def edges():
    def run():
        res = []
        for src in sources():
            oid = "regroup/" + src.replace(" ", "")
            try:
                out = convert("10 X=%s\n" % src, add_standard_prefix=False)
            except Exception as e:  # refused by the tool: nothing is emitted, nothing to compare
                res.append(ob(oid, True, "refused or equal trees", "refused: %s" % type(e).__name__))
                continue
            m = re.match(r"10 X := (.*)\n$", out)
            if not m:
                res.append(ob(oid, False, "10 X := <expr>", out))
                continue
            try:
                t_b09 = tree(m.group(1), B09_LEVELS)
                t_cb = tree(src, CB_LEVELS)
            except Exception as e:  # noqa
                res.append(ob(oid, False, "parsable", "%s: %s" % (type(e).__name__, e)))
                continue
            res.append(ob(oid, t_b09 == t_cb, repr(t_cb), repr(t_b09) + "   <= " + m.group(1), "source %r" % src, edge_class=classify(src)))
        return res
    return guarded("regroup", run)


def obligations():
    return chains() + hex_values() + edges()


def literal_values():
    """every spelling of a decimal literal denotes the number Color BASIC reads (blanks ignored, sign and exponent sign kept apart)"""
    def run():
        from tx import f2
        from coco.b09 import elements as E
        res = []
        bad = []
        spellings = ["0", "1", "10", "1.5", ".5", "12.", "1E2", "1E+2", "1E-2", "2E-1", "1.5E+3", "1.5E-3", "2 E - 1", "1 .5", "007", "1E0", "9.99E-5", "65535", "0.0001234567"]
        for s in spellings:
            for sign in ("", "-", "+"):
                src = sign + s
                try:
                    lit, _ = f2.build("num_literal", src, operand_rules={})
                except Exception as e:  # noqa  (refused spellings are C08/C15's business)
                    continue
                want = float(src.replace(" ", ""))
                if not isinstance(lit, E.BasicLiteral) or lit.literal != want or lit.basic09_text(0) != repr(want):
                    bad.append((src, getattr(lit, "literal", lit), want))
        res.append(ob("literal/decimal spellings denote their value", not bad, "value == the numeral's value", bad[:4] or "%d spellings x 3 signs" % len(spellings)))
        return res
    return guarded("literal", run)


def helpers_in_expressions():
    """INSTR and VAL occur inside numeric expressions: their bundled helpers return the Color BASIC value and leave their
    by-reference arguments alone (shared with C20 / C03)"""
    from tx import p_c20, p_c03
    return [dict(o, id="helpers/" + o["id"]) for o in p_c20.instr() + p_c03.val_helper()]


def int_helper():
    """INT is translated to a call of the bundled ecb_int: for every argument it must return Color BASIC's INT, the largest
    whole number not above the argument (bounded stand-in: the real BASIC09 text is evaluated on a grid)"""
    def run():
        import math
        from tx import b09mini, ecbsig
        proc = b09mini.load(ecbsig.library_text(), "ecb_int")
        grid = [float(k) for k in range(-40, 41)] + [k + f for k in range(-40, 40) for f in (0.25, 0.5, 0.999, 0.001)] + [-32768.0, -32767.5, 32767.5, 65535.0, -65536.0, 1e6 + 0.5, -1e6 - 0.5]
        bad = []
        for v in grid:
            try:
                got = proc.run(v, 99.0)[1]
            except Exception as e:  # noqa
                got = "%s: %s" % (type(e).__name__, e)
            if got != float(math.floor(v)):
                bad.append(dict(argument=v, expected=float(math.floor(v)), got=got))
        return [ob("helpers/ecb_int is Color BASIC's INT", not bad, "floor(v)", bad[:4] or "%d arguments" % len(grid),
                   bounded="%d arguments: all whole numbers -40..40, four fractions between each, extremes" % len(grid))]
    return guarded("helpers/ecb_int", run)


_c01_base = obligations


def obligations():  # noqa: F811
    # a value computed by a hoisted call reaches the expression through its temporary: temporaries of one statement are distinct
    from tx.p_c05 import temp_sequences
    from tx.p_c02 import condition_coercion
    # the value of a string literal is its text, blanks included (shared with C08); the kind of an expression decides the temporary
    # that carries its value (shared with C14)
    from tx.p_c05 import share
    from tx.p_c08 import content
    from tx.p_c14 import rule_kinds
    return (_c01_base() + literal_values() + temp_sequences() + condition_coercion() + int_helper() + helpers_in_expressions()
            + share("literal-text/", content()) + share("kind/", rule_kinds()) + share("operands/", __import__("tx.p_c14", fromlist=["x"]).data_filter_leaves_operands_alone())
            # a comparison has the value of the relation the source spells (shared with C02); the value of `target = F(..)` reaches the target
            # for every kind of target (shared with C05)
            + share("relations/", __import__("tx.p_c02", fromlist=["x"]).relation_spellings()) + share("delivery/", __import__("tx.p_c05", fromlist=["x"]).direct_delivery())
            # an expression over hoisted calls has its value only if every call is made before its result is read (shared with C05)
            + share("order/", __import__("tx.p_c05", fromlist=["x"]).call_order_through_convert()))
