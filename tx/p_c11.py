"""C11: each option changes only the aspect of the output it documents; the command line maps each flag to exactly
that option, names the procedure after the input file and writes OS-9 line ends.
Option footprints are compared on injected ASTs (opaque statements plus one construct per option-sensitive aspect),
each single-option difference for *every* setting of the other options (so the 2^k product is covered)."""
import io
import itertools
import os
import re
import tempfile

from coco import decb_to_b09
from coco.b09 import compiler, elements as E
from tx import opaque
from tx.inject import convert_ast, injected
from tx.opaque import OpqExp, OpqStmt
from tx.p_c05 import ob, guarded
from tx.p_c10 import aref

OPTS = ["filter_unused_linenum", "initialize_vars", "default_width32", "output_dependencies", "str80"]


def program():
    S = lambda *t: E.BasicStatements([OpqStmt(x) if isinstance(x, str) else x for x in t])
    return [
        # line 0 is a label like any other (nothing refers to it); the literal holds every character str.splitlines()
        # treats as a line end besides CR/LF: text inside a literal is data in every option setting
        E.BasicLine(0, S("q0", E.BasicAssignment(E.BasicVar("C$", True), E.BasicLiteral("T\x0bO\x0cP\x1cB\x1dO\x1eT\x85T\u2028O\u2029M", is_str_expr=True)))),
        E.BasicLine(10, S("q1", E.BasicDimStatement([aref("M", (2,)), E.BasicVar("D$", True)]))),
        E.BasicLine(20, S(E.BasicAssignment(E.BasicVar("A$", True), E.BasicVar("X")), E.BasicIf(OpqExp("c"), E.BasicGoto(40, True)))),
        E.BasicLine(30, S(E.BasicAssignment(aref("J", (1,)), E.BasicVar("Y")), E.BasicRunCall("RUN ecb_string", E.BasicExpressionList([E.BasicVar("X"), E.BasicVar("A$", True), E.BasicVar("B$", True)])))),
        E.BasicLine(40, S("q2", E.BasicOnErrGoStatement(50), E.BasicOnBrkGoStatement(60), E.BasicOnGoStatement(OpqExp("sel"), [70, 40]))),
        E.BasicLine(50, S("q3")),
        E.BasicLine(60, S("q4")),
        E.BasicLine(70, S("q5")),
        E.BasicLine(80, S("q6", E.BasicAssignment(E.BasicVar("D$", True), E.BasicVar("B$", True)))),   # D$ is DIMensioned in line 10 *and* used
    ]


def run_conv(o):
    opaque.reset()
    return convert_ast(program, filter_unused_linenum=o["filter_unused_linenum"], initialize_vars=o["initialize_vars"], default_width32=o["default_width32"],
                       output_dependencies=o["output_dependencies"], procname="prog", default_str_storage=80 if o["str80"] else 32)


def user_part(text):
    """the program's own procedure (last one when dependencies are bundled), header removed"""
    parts = re.split(r"(?m)^procedure ", text)
    body = parts[-1]
    if len(parts) > 1:
        body = body.split("\n", 1)[1]
    return body


def strip_labels(t):
    return "\n".join(re.sub(r"^\d+ ", "", l) for l in t.split("\n"))


def drop_init(t):
    out = []
    for l in t.split("\n"):
        if re.fullmatch(r"(?:[A-Z][A-Z0-9]?\$? := (?:0\.0|\"\")(?: \\ )?)+", l.strip()):
            continue
        if re.match(r"^\s*(FOR tmp_\d+ = 0 TO .* NEXT tmp_\d+|[A-Z][A-Z0-9]?\$? := (0|\"\"))$", l.strip()):
            continue
        out.append(l)
    return "\n".join(out)


def sizes_erased(t):
    # allocation lines of the allocator pass (`DIM X$:STRING[n]`, one per line) disappear; explicit sizes on DIMs are erased
    t = "\n".join(l for l in t.split("\n") if not re.fullmatch(r"DIM [A-Za-z_0-9]+\$:STRING\[\d+\]", l.strip()))
    return re.sub(r":\s*STRING\[\d+\]", "", t)


def footprints():
    out = []
    settings = [dict(zip(OPTS, bits)) for bits in itertools.product((False, True), repeat=len(OPTS))]
    texts = {tuple(s.values()): run_conv(s) for s in settings}

    def pair(opt):
        for s in settings:
            if s[opt]:
                continue
            t = dict(s)
            t[opt] = True
            yield s, texts[tuple(s.values())], texts[tuple(t.values())]

    def check(opt, pred, what):
        def run():
            bad = []
            n = 0
            for s, off, on in pair(opt):
                n += 1
                r = pred(off, on)
                if r is not True:
                    bad.append(dict(other_options={k: v for k, v in s.items() if k != opt}, problem=r))
            return [ob("footprint/%s" % opt, not bad and n == 16, what, bad[:2] or "holds for all 16 settings of the other options")]
        return guarded("footprint/%s" % opt, run)

    def p_filter(off, on):
        if strip_labels(off) != strip_labels(on):
            return "more than labels differs"
        lab = lambda t: set(re.findall(r"(?m)^(\d+) ", user_part(t)))
        if not lab(on) <= lab(off):
            return "filtering added a label"
        if lab(on) != {"40", "50", "60", "70", "32700"}:
            return "labels with filtering: %s (referenced: 40 by THEN and ON..GOTO, 50 by ON ERR, 60 by ON BRK, 70 by ON..GOTO, plus the dispatcher 32700)" % sorted(lab(on))
        return True
    out += check("filter_unused_linenum", p_filter, "only labels disappear; exactly the unreferenced ones")

    def p_init(off, on):
        if drop_init(on) != drop_init(off):
            return "more than the prologue assignments and the array fill loops differs"
        if "X := 0.0" not in on or "FOR tmp_1 = 0 TO 2" not in on:
            return "initialisation missing when asked"
        prologue = user_part(on).split("⟦q0@")[0]
        names = re.findall(r"(?m)^\s*([A-Z][A-Z0-9]?\$?) := (?:0\.0|\"\")\s*$", prologue.replace(" \\ ", "\n"))
        if names != ["A$", "B$", "C$", "X", "Y"]:
            return "prologue assigns %s; the scalars used and not DIMensioned by the source are A$, B$, C$, X, Y (D$ has its own DIM)" % names
        if "X := 0.0" in off or "FOR tmp_1" in off:
            return "initialisation present when not asked"
        return True
    out += check("initialize_vars", p_init, "only the assignment line and the DIM fill loops")

    def p_width(off, on):
        a = off.replace("RUN _ecb_start(display, 0)", "RUN _ecb_start(display, W)")
        b = on.replace("RUN _ecb_start(display, 1)", "RUN _ecb_start(display, W)")
        if a != b:
            return "more than the flag of the start-up call differs"
        return True if ("RUN _ecb_start(display, 1)" in on and "RUN _ecb_start(display, 0)" in off) else "flag value wrong"
    out += check("default_width32", p_width, "only the start-up call's flag")

    def p_deps(off, on):
        if "procedure prog" not in on or "procedure" in off:
            return "header / bundle presence wrong"
        if user_part(on).strip("\n") != off.strip("\n"):
            return "the program text itself changed"
        return True
    out += check("output_dependencies", p_deps, "only the procedure header and the bundled procedures")

    def p_str(off, on):
        if sizes_erased(user_part(off)) != sizes_erased(user_part(on)):
            return "more than declared string sizes differs in the program"
        if "STRING[80]" not in on or "STRING[80]" in off:
            return "sizes not applied"
        for t, label in ((on, "80"), (off, "32")):
            names = []
            for l in user_part(t).split("\n"):
                m = re.match(r"^\s*(?:\d+ )?DIM (.*)$", l)
                if m:
                    names += [x for x in re.findall(r"([A-Za-z_][A-Za-z_0-9]*\$?)(?:\([^)]*\))?\s*(?:,|:|;|$)", re.sub(r"STRING\[\d+\]|STRING|display_t|play_t|integer|real|byte", "", m.group(1))) if x]
            dup = sorted({n for n in names if names.count(n) > 1})
            if dup:
                return "declared more than once at size %s: %s" % (label, dup)
        return True
    out += check("str80", p_str, "only declared string sizes (DIM suffixes, allocation lines, library placeholders)")

    def small():
        bad = []
        for s in settings:
            if not s["str80"]:
                continue
            opaque.reset()
            t16 = convert_ast(program, filter_unused_linenum=s["filter_unused_linenum"], initialize_vars=s["initialize_vars"], default_width32=s["default_width32"],
                              output_dependencies=s["output_dependencies"], procname="prog", default_str_storage=16)
            t80 = texts[tuple(s.values())]
            if t16.replace("[16]", "[80]") != t80:
                a, b = t16.replace("[16]", "[80]").split("\n"), t80.split("\n")
                diff = [x for x in b if x not in a][:3] + ["missing at 16: "] if len(a) != len(b) else [(x, y) for x, y in zip(a, b) if x != y][:2]
                bad.append(dict(other_options={k: v for k, v in s.items() if k != "str80"}, lines_at_80=len(b), lines_at_16=len(a), first=diff))
        return [ob("footprint/string size below the BASIC09 default", not bad, "size 16 and size 80 differ in the declared numbers only", bad[:2] or "holds for all 16 settings of the other options")]
    out += guarded("footprint/str16", small)
    return out


def command_line():
    def run():
        res = []
        captured = {}

        def fake_convert_file(inp, outp, **kw):
            captured.clear()
            captured.update(kw)
        saved = decb_to_b09.convert_file
        d = tempfile.mkdtemp(dir=os.environ.get("XDG_RUNTIME_DIR") or "/dev/shm")
        try:
            decb_to_b09.convert_file = fake_convert_file
            flagmap = {"-l": ("filter_unused_linenum", True), "-z": ("initialize_vars", False), "-D": ("output_dependencies", False), "-w": ("default_width32", False)}
            defaults = dict(filter_unused_linenum=False, initialize_vars=True, output_dependencies=True, default_width32=True, default_str_storage=32, config_file=None)
            for stem in ("prog", "bubbles", "atlas", "abs", "b", "my.prog", "3d"):
                src = os.path.join(d, stem + ".bas")
                open(src, "w").write("10 A=1\n")
                for flags in itertools.chain.from_iterable(itertools.combinations(flagmap, r) for r in range(len(flagmap) + 1)):
                    sizes = ["80"] if stem != "prog" else ["80", "1", "31", "32", "33", "255", "256", "1000", "32767"]
                    for extra in [[], ["-c", "cfg.yaml"]] + [["-s", n] for n in sizes]:
                        decb_to_b09.start(list(flags) + extra + [src, os.path.join(d, "out.b09")])
                        want = dict(defaults)
                        for f in flags:
                            want[flagmap[f][0]] = flagmap[f][1]
                        if extra[:1] == ["-s"]:
                            want["default_str_storage"] = int(extra[1])
                        if extra[:1] == ["-c"]:
                            want["config_file"] = "cfg.yaml"
                        want["procname"] = stem
                        if captured != want:
                            res.append(ob("cli/%s %s" % (stem, " ".join(list(flags) + extra)), False, want, dict(captured)))
            # the procedure is named after the name on the command line, whatever that name resolves to in the file system
            real = os.path.join(d, "level_one.bas")
            open(real, "w").write("10 A=1\n")
            for linkname in ("game.bas", "sub"):
                link = os.path.join(d, linkname)
                os.symlink(real, link)
                decb_to_b09.start([link, os.path.join(d, "out.b09")])
                want = dict(defaults, procname=linkname.split(".")[0])
                if captured != want:
                    res.append(ob("cli/symlinked input %s" % linkname, False, want, dict(captured)))
            if not res:
                res.append(ob("cli/flags map to exactly their option; procedure named after the file stem", True, "7 stems x 16 flag sets x (none, -c, -s n; nine values of n for the first stem)", "all equal"))
        finally:
            decb_to_b09.convert_file = saved
            for f in os.listdir(d):
                os.unlink(os.path.join(d, f))
            os.rmdir(d)
        # convert_file: \n -> \r and nothing else
        with injected(lambda: __import__("coco.b09.prog", fromlist=["BasicProg"]).BasicProg([E.BasicLine(10, E.BasicStatements([OpqStmt("q")]))])):
            out = io.StringIO()
            compiler.convert_file(io.StringIO("x"), out, add_standard_prefix=False)
            ref = compiler.convert("x", add_standard_prefix=False)
        res.append(ob("cli/convert_file writes OS-9 line ends", out.getvalue() == ref.replace("\n", "\r") and "\n" not in out.getvalue(), "convert() output with every LF replaced by CR", repr(out.getvalue())[:120]))
        # convert_file hands the listing to convert() as it is: content in every case and script survives (real parser, no injection)
        listing = '10 DATA paris,"Rome",new york\n20 REM mixed Case remark\n30 A$="lower UPPER":PRINT "x";A$\n40 \'tail Comment\n50 READ B$\n'
        for kw in (dict(), dict(filter_unused_linenum=True, initialize_vars=False), dict(output_dependencies=True, procname="p", default_str_storage=80)):
            out = io.StringIO()
            compiler.convert_file(io.StringIO(listing), out, **kw)
            ref = compiler.convert(listing, **kw)
            res.append(ob("cli/convert_file is convert() plus line ends,%s" % ",".join(sorted(kw)) if kw else "cli/convert_file is convert() plus line ends", out.getvalue() == ref.replace("\n", "\r"),
                          "identical to convert(text, same options) with LF -> CR", "differs: %r ..." % next((a for a, b in zip(out.getvalue().split("\r"), ref.split("\n")) if a != b), "")[:100] if out.getvalue() != ref.replace("\n", "\r") else "identical"))
        return res
    return guarded("cli", run)


def shared():
    """the string-size option reaches every declaration of a DIM statement whatever the order of the sizes in it (shared with
    C10); the dependency option adds the procedures *this* program needs, whatever was converted before (shared with C13)"""
    from tx import p_c10, p_c13
    from tx import p_c12
    return ([dict(o, id="size/" + o["id"]) for o in p_c10.dim_contract() if "one statement" in o["id"]] + __import__("tx.p_c05", fromlist=["share"]).share("deps/", p_c13.small_graphs() + p_c13.bundle_closed_through_convert() + p_c13.history() + p_c13.line_splitting() + p_c13.user_text())
            + [dict(o, id="function-of-its-arguments/" + o["id"]) for o in p_c12.persistent_state()]
            # the label filter removes labels and nothing else: what is refused without it is refused with it (shared with C06)
            + __import__("tx.p_c05", fromlist=["share"]).share("filter/", [o for o in __import__("tx.p_c06", fromlist=["x"]).targets_through_convert() if "numbers above the limit" in o["id"] or "filter keeps exactly" in o["id"] or "GOTO 40000" in o["id"] or "targets/" in o["id"] and "undefined" in o["id"]])
            # initialize_vars adds assignments of the program's own variables only (shared with C09)
            + __import__("tx.p_c05", fromlist=["share"]).share("init/", __import__("tx.p_c09", fromlist=["x"]).initializer_positions() + __import__("tx.p_c09", fromlist=["x"]).initializer_skips_generated()))


def obligations():
    return footprints() + command_line() + shared()
