"""Family F2: the real PEG grammar and the real BasicVisitor, driven rule by rule.

A sentence of one grammar rule is parsed with the *real* rule object (`grammar[rule].parse`), the sub-trees of the
operand rules (exp, str_exp, ...) are replaced by opaque expressions (numbered in source order), and the *real*
visitor is run on the rest.  The result is what the tool builds for that statement form, parametric in the operands."""
from parsimonious.nodes import Node

from coco.b09.grammar import grammar
from coco.b09.parser import BasicVisitor
from tx.opaque import OpqExp

# operand rules: their sub-trees are abstracted (contract: "an arbitrary numeric / string expression")
OPERAND_RULES = {"exp": False, "str_exp": True, "num_exp": False, "if_exp": False}


class OpaqueNode(Node):
    __slots__ = ["value"]

    def __init__(self, node, value):
        Node.__init__(self, node.expr, node.full_text, node.start, node.end, [])
        self.value = value


class HarnessVisitor(BasicVisitor):
    unwrapped_exceptions = (Exception,)   # let the original exception through instead of VisitationError

    def visit(self, node):
        if isinstance(node, OpaqueNode):
            return node.value
        return super().visit(node)


def abstract(node, counter, operand_rules=OPERAND_RULES, top=True, wrap=None):
    name = node.expr_name
    if name in operand_rules and not top:
        counter[0] += 1
        o = OpqExp("E%d" % counter[0], is_str=operand_rules[name])
        if wrap == "unary" and not operand_rules[name]:
            # an operand is an operand whatever class the parser gives it: a unary-operator expression is a BasicOpExp,
            # which is *not* an AbstractBasicExpression
            from coco.b09.elements import BasicOpExp
            o = BasicOpExp("-", o)
        return OpaqueNode(node, o)
    kids = [abstract(c, counter, operand_rules, False, wrap) for c in node.children]
    return Node(node.expr, node.full_text, node.start, node.end, kids)


def build(rule, sentence, operand_rules=OPERAND_RULES, wrap=None):
    """Returns (result of the real visitor, number of operands) for one sentence of one rule."""
    tree = grammar[rule].parse(sentence)
    counter = [0]
    t2 = abstract(tree, counter, operand_rules, True, wrap)
    return HarnessVisitor().visit(t2), counter[0]


NUMS = ["A1", "B2", "C3", "D4", "E5", "F6", "G7", "H8", "I9"]
STRS = ["A1$", "B2$", "C3$", "D4$"]


def fill(template, spaces=""):
    """{e} -> distinct numeric variables, {s} -> distinct string variables, {_} -> optional blanks"""
    out, ni, si = [], 0, 0
    i = 0
    while i < len(template):
        if template.startswith("{e}", i):
            out.append(NUMS[ni]); ni += 1; i += 3
        elif template.startswith("{s}", i):
            out.append(STRS[si]); si += 1; i += 3
        elif template.startswith("{_}", i):
            out.append(spaces); i += 3
        else:
            out.append(template[i]); i += 1
    return "".join(out)
