"""Pass-order contract of coco.b09.compiler.convert (static, over the real source).

convert() is a fixed sequence of passes over one mutable AST.  A pass that *creates* nodes (temporaries, RUN calls, moved
READ targets) must run before every pass that *collects* what exists (declared arrays, string allocations, initialisations,
line references), and what depends on the collected line references (label filters, the undefined-line check) must run after
the collection and before the generated dispatcher is appended.  The contract is derived from the visitor classes themselves:

  producer  = a visitor whose visit_* methods call get_new_temp / transform_function_to_call or construct AST nodes
  collector = a visitor whose visit_* methods add to a set / list / dict it owns (names, references, statements)

and the obligation is: in convert(), every producer is applied before every collector."""
import ast
import os

import coco
from tx.p_c05 import ob, guarded

B09DIR = os.path.join(os.path.dirname(coco.__file__), "b09")
NODE_CLASSES = ("BasicVar", "BasicArrayRef", "BasicRunCall", "BasicFunctionalExpression", "BasicStatements", "BasicLiteral", "BasicAssignment")


def classify_visitors():
    tree = ast.parse(open(os.path.join(B09DIR, "visitors.py")).read())
    producers, collectors = {}, {}
    for cls in [n for n in tree.body if isinstance(n, ast.ClassDef)]:
        for fn in [f for f in cls.body if isinstance(f, ast.FunctionDef) and f.name.startswith("visit_")]:
            for n in ast.walk(fn):
                if isinstance(n, ast.Call):
                    f = n.func
                    fname = f.attr if isinstance(f, ast.Attribute) else getattr(f, "id", "")
                    if fname in ("get_new_temp", "transform_function_to_call") or fname in NODE_CLASSES:
                        producers.setdefault(cls.name, set()).add("%s() in %s" % (fname, fn.name))
                    if isinstance(f, ast.Attribute) and f.attr in ("add", "update", "append", "extend", "setdefault") and ast.unparse(f.value).startswith("self."):
                        collectors.setdefault(cls.name, set()).add("%s.%s in %s" % (ast.unparse(f.value), f.attr, fn.name))
                if isinstance(n, (ast.Assign, ast.AugAssign)):
                    for t in (n.targets if isinstance(n, ast.Assign) else [n.target]):
                        if isinstance(t, ast.Subscript) and ast.unparse(t.value).startswith("self."):
                            collectors.setdefault(cls.name, set()).add("%s[...] in %s" % (ast.unparse(t.value), fn.name))
    return producers, collectors


def applied_sequence():
    """[(position, visitor class names applied at that point, line)] in textual order of convert(), and the positions of the
    calls that add generated lines (append_lines / extend_prefix_lines / insert_lines_at_beginning)"""
    tree = ast.parse(open(os.path.join(B09DIR, "compiler.py")).read())
    fn = next(n for n in tree.body if isinstance(n, ast.FunctionDef) and n.name == "convert")
    bound = {}

    def classes_of(e):
        if isinstance(e, ast.Call):
            return [ast.unparse(e.func).split(".")[-1]]
        if isinstance(e, ast.IfExp):
            return classes_of(e.body) + classes_of(e.orelse)
        if isinstance(e, ast.Name):
            return bound.get(e.id, ["?" + e.id])
        return ["?" + ast.unparse(e)[:30]]
    seq, adds = [], []
    nodes = sorted((n for n in ast.walk(fn) if hasattr(n, "lineno")), key=lambda n: (n.lineno, n.col_offset))
    for n in nodes:
        if isinstance(n, (ast.Assign, ast.AnnAssign)) and n.value is not None:
            tg = n.targets[0] if isinstance(n, ast.Assign) else n.target
            if isinstance(tg, ast.Name):
                bound[tg.id] = classes_of(n.value)
        if isinstance(n, ast.Call) and isinstance(n.func, ast.Attribute) and ast.unparse(n.func.value) == "basic_prog":
            if n.func.attr == "visit" and n.args:
                seq.append((len(seq), classes_of(n.args[0]), n.lineno))
            elif n.func.attr in ("append_lines", "extend_prefix_lines", "insert_lines_at_beginning"):
                adds.append((len(seq), n.func.attr, ast.unparse(n.args[0]) if n.args else "", n.lineno))
    return seq, adds


def obligations():
    def run():
        res = []
        producers, collectors = classify_visitors()
        seq, adds = applied_sequence()
        pos = {}
        for k, names, line in seq:
            for nm in names:
                pos.setdefault(nm, []).append((k, line))
        unknown = [n for _, names, _ in seq for n in names if n.startswith("?")]
        res.append(ob("pipeline/every pass of convert() is a known visitor class", not unknown and len(seq) >= 12, "resolved visitor classes", unknown or "%d passes" % len(seq)))
        bad = []
        for p in sorted(producers):
            for c in sorted(collectors):
                if p == c or p not in pos or c not in pos:
                    continue
                last_p = max(k for k, _ in pos[p])
                first_c = min(k for k, _ in pos[c])
                if last_p > first_c:
                    bad.append("%s (creates nodes: %s) runs at line %d, after %s (collects: %s) at line %d" % (
                        p, sorted(producers[p])[0], max(l for _, l in pos[p]), c, sorted(collectors[c])[0], min(l for _, l in pos[c])))
        applied_p = sorted(p for p in producers if p in pos)
        applied_c = sorted(c for c in collectors if c in pos)
        res.append(ob("pipeline/every node-creating pass runs before every collecting pass", not bad and len(applied_p) >= 3 and len(applied_c) >= 5,
                      "producers %s before collectors %s" % (applied_p, applied_c), bad[:4] or "ordered"))
        # the hoisting pass (the one that turns functions into calls in front of their statement) sees every statement that holds a
        # user expression: the passes that build such statements (INPUT / READ / PRINT patchers) run before it
        hoisters = sorted(p for p in producers if any(w.startswith("transform_function_to_call") for w in producers[p]))
        builders = sorted(p for p in producers if p not in hoisters)
        bad = []
        for h in hoisters:
            for b in builders:
                if h in pos and b in pos and max(k for k, _ in pos[b]) > min(k for k, _ in pos[h]):
                    bad.append("%s (builds statements: %s) runs at line %d, after the hoisting pass %s at line %d" % (b, sorted(producers[b])[0], max(l for _, l in pos[b]), h, min(l for _, l in pos[h])))
        res.append(ob("pipeline/statement-building passes run before the hoisting pass", not bad and len(hoisters) == 1 and len([b for b in builders if b in pos]) >= 3,
                      "%s before %s" % ([b for b in builders if b in pos], hoisters), bad[:3] or "ordered"))
        # what depends on the collected references comes after the collection; the generated dispatcher is appended after the filters
        bad = []
        ref = min((k for k, _ in pos.get("LineReferenceVisitor", [])), default=None)
        for dep in ("LineNumberFilterVisitor", "LineZeroFilterVisitor", "LineNumberCheckerVisitor"):
            for k, line in pos.get(dep, []):
                if ref is None or k < ref:
                    bad.append("%s at line %d runs before the line references are collected" % (dep, line))
        last_filter = max([k for d in ("LineNumberFilterVisitor", "LineZeroFilterVisitor") for k, _ in pos.get(d, [])], default=None)
        for k, how, what, line in adds:
            if how == "append_lines" and last_filter is not None and k <= last_filter:
                bad.append("generated lines (%s) are appended at line %d before the label filter runs: their own labels would be filtered" % (what, line))
        res.append(ob("pipeline/label filters and checks after reference collection, generated suffix after the filters", not bad and ref is not None, "ordered", bad[:4] or "ordered"))
        return res
    return guarded("pipeline", run)
