"""Opaque parts for class-level obligations on coco/b09 (runs under /venv/bin/python, real code imported from the
tree under test).

An opaque child stands for "any construct of its kind": the method under test may only use it through the
interface the contracts speak about (basic09_text, visit, is_expr/is_str_expr, isinstance against its base class,
truthiness).  Anything else it does with the child or with the child's text is *trapped* (OpaqueUse), so that a
per-class result really holds for every child (checked parametricity, not assumed)."""
from coco.b09.elements import AbstractBasicConstruct, AbstractBasicExpression, AbstractBasicStatement


class OpaqueUse(Exception):
    """The code under test inspected an opaque part in a way no contract covers."""


L, R = "⟦", "⟧"   # marker brackets, never produced by the tool itself


class Mark(str):
    """Text of an opaque child.  May be concatenated, formatted and joined; may not be inspected."""

    def _trap(self, *a, **k):
        raise OpaqueUse("text of an opaque child inspected: %s" % str.__str__(self))

    strip = lstrip = rstrip = split = rsplit = replace = find = rfind = index = rindex = startswith = endswith = _trap
    upper = lower = title = capitalize = swapcase = casefold = partition = rpartition = splitlines = zfill = _trap
    isdigit = isalpha = isalnum = isspace = isupper = islower = count = center = ljust = rjust = encode = _trap
    removeprefix = removesuffix = expandtabs = translate = _trap
    __getitem__ = __iter__ = __contains__ = __len__ = __lt__ = __le__ = __gt__ = __ge__ = __mod__ = __mul__ = __rmul__ = _trap

    def __eq__(self, other):
        if isinstance(other, Mark):
            return str.__eq__(self, other)
        raise OpaqueUse("text of an opaque child compared with %r" % (other,))

    def __ne__(self, other):
        return not self.__eq__(other)

    __hash__ = str.__hash__

    def __bool__(self):
        # contract (obligation T-nonempty of every class): the text of a construct is never empty
        return True

    def __format__(self, spec):
        if spec:
            raise OpaqueUse("format spec applied to opaque text")
        return str.__str__(self)

    def __str__(self):
        return str.__str__(self)


TRACE = []          # events recorded by opaque children and by the recording visitor
_COUNTER = [0]


def reset():
    del TRACE[:]
    _COUNTER[0] = 0


def mark(tag, indent):
    return Mark("%s%s@%s%s" % (L, tag, indent, R))


class _OpaqueMixin:
    _opaque_tag = "?"

    def _init_opaque(self, tag):
        object.__setattr__(self, "_opaque_tag", tag)

    def basic09_text(self, indent_level, **kw):
        if kw:
            raise OpaqueUse("unexpected keyword passed to basic09_text of an opaque child: %r" % (kw,))
        TRACE.append(("text", self._opaque_tag, indent_level))
        return mark(self._opaque_tag, indent_level)

    def visit(self, visitor):
        TRACE.append(("child", self._opaque_tag))

    def __getattr__(self, name):
        # only reached for attributes that do not exist
        raise OpaqueUse("attribute %r of opaque part %s read" % (name, self._opaque_tag))

    def __repr__(self):
        return "<opaque %s>" % self._opaque_tag

    def __bool__(self):
        return True


class OpqExp(_OpaqueMixin, AbstractBasicExpression):
    """Any expression.  is_str_expr is fixed per instance (both values are enumerated by the caller)."""

    def __init__(self, tag, is_str=False):
        AbstractBasicExpression.__init__(self, is_str_expr=is_str)
        self._init_opaque(tag)


class OpqStmt(_OpaqueMixin, AbstractBasicStatement):
    """Any statement."""

    def __init__(self, tag):
        AbstractBasicStatement.__init__(self)
        self._init_opaque(tag)


class OpqAny(_OpaqueMixin, AbstractBasicConstruct):
    def __init__(self, tag):
        self._init_opaque(tag)


class RecordingVisitor:
    """Records every hook the code under test calls, with the identity label of the object it passes."""

    def __init__(self, labels=None, replace=None):
        self.labels = labels or {}
        self.replace = replace or {}

    def _lab(self, obj):
        return self.labels.get(id(obj), getattr(obj, "_opaque_tag", type(obj).__name__))

    def __getattr__(self, name):
        if not name.startswith("visit_"):
            raise AttributeError(name)

        def hook(obj, *rest):
            TRACE.append(("hook", name[6:], self._lab(obj)))
            if name in ("visit_print_statement", "visit_read_statement", "visit_input_statement"):
                return self.replace.get(name, obj)
            return None
        return hook
