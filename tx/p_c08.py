"""C08: insignificant layout does not change the translation.
(i)  static obligation over the real grammar: in every Sequence, two adjacent token members are separated by
     something that absorbs blanks (or one of them absorbs blanks at that end);
(ii) for every statement form: the packed spelling and spellings with 1 and 2 blanks at every token boundary are
     either all refused or give byte-identical output (through the real convert());
(iii) line structure: LF / CR / CRLF, blank lines, trailing NUL, `?` for PRINT;
(iv) content: blanks inside string literals, DATA items and comments are preserved exactly."""
import itertools
import re

from parsimonious import expressions as PE

from coco.b09.compiler import convert
from coco.b09.grammar import grammar
from tx.p_c04 import ROWS
from tx import f2
from tx.p_c05 import ob, guarded


def resolve(e):
    return e


def blank_only(e, seen=None):
    """can only match blanks (space* / space)"""
    seen = seen or set()
    if id(e) in seen:
        return False
    seen = seen | {id(e)}
    if isinstance(e, PE.Regex):
        return e.re.pattern in (" ", " *", r"\s*")
    if isinstance(e, PE.Quantifier):
        return blank_only(e.members[0], seen)
    if isinstance(e, PE.Sequence) or isinstance(e, PE.OneOf):
        return all(blank_only(m, seen) for m in e.members)
    return False


def absorbs(e, end, seen=None):
    """accepts any number of blanks at its `end` ('lead' / 'trail')"""
    seen = seen or set()
    if id(e) in seen:
        return False
    seen = seen | {id(e)}
    if isinstance(e, PE.Quantifier):
        if blank_only(e.members[0]) and e.max > 1000:
            return True
        return absorbs(e.members[0], end, seen) and e.min >= 1
    if isinstance(e, PE.Sequence):
        ms = e.members if end == "lead" else list(reversed(e.members))
        for m in ms:
            if absorbs(m, end, seen):
                return True
            if not nullable(m):
                return False
        return False
    if isinstance(e, PE.OneOf):
        return all(absorbs(m, end, seen) for m in e.members)
    return False


def nullable(e, seen=None):
    seen = seen or set()
    if id(e) in seen:
        return False
    seen = seen | {id(e)}
    if isinstance(e, PE.Quantifier):
        return e.min == 0 or nullable(e.members[0], seen)
    if isinstance(e, PE.Sequence):
        return all(nullable(m, seen) for m in e.members)
    if isinstance(e, PE.OneOf):
        return any(nullable(m, seen) for m in e.members)
    if isinstance(e, PE.Regex):
        return e.re.match("") is not None
    if isinstance(e, PE.Literal):
        return e.literal == ""
    if isinstance(e, PE.Lookahead):
        return True
    return False


# boundaries that are line structure or content, not token boundaries of a statement (DESIGN.md, C08)
EXEMPT = {("comment", 0), ("aaa_prog", 0), ("aaa_prog", 1), ("aaa_prog", 2), ("aaa_prog", 3), ("multi_line_element", 0), ("multi_line_element", 1),
          ("data_element0", 1), ("data_elements", 0), ("data_elements", 1), ("data_str_element1", 0)}


EXEMPT_REP = set()


def boundaries():
    def run():
        missing = []
        n = 0

        def walk(name, e, seen):
            nonlocal n
            if id(e) in seen:
                return
            seen.add(id(e))
            if isinstance(e, PE.Sequence):
                ms = e.members
                for k in range(len(ms) - 1):
                    a, b = ms[k], ms[k + 1]
                    if blank_only(a) or blank_only(b):
                        continue
                    n += 1
                    prev_ok = (k > 0 and nullable(a) and isinstance(a, PE.Quantifier) and absorbs(a.members[0], "trail")
                               and (blank_only(ms[k - 1]) or absorbs(ms[k - 1], "trail")))
                    if not (absorbs(a, "trail") or absorbs(b, "lead") or prev_ok) and (name, k) not in EXEMPT:
                        missing.append("%s: between member %d (%s) and %d (%s)" % (name, k, a.name or a.as_rule()[:30], k + 1, b.name or b.as_rule()[:30]))
            if isinstance(e, PE.Quantifier) and e.max > 1 and not blank_only(e.members[0]) and not isinstance(e.members[0], PE.Regex):
                # a repeated element meets itself: the end of one repetition and the start of the next is a token boundary too
                m = e.members[0]
                n += 1
                if not (absorbs(m, "trail") or absorbs(m, "lead")) and (name, "rep") not in EXEMPT_REP:
                    missing.append("%s: between two repetitions of %s" % (name, m.name or m.as_rule()[:40]))
            for m in getattr(e, "members", ()):
                if not getattr(m, "name", ""):
                    walk(name, m, seen)
        for name, rule in grammar.items():
            walk(name, rule, set())
        return [ob("boundaries/every adjacent token pair admits blanks", not missing and n >= 10, "no Sequence boundary without admitted blanks (outside the exempt line-structure/content ones)",
                   missing[:8] or "%d boundaries" % n)]
    return guarded("boundaries", run)


FORMS = [
    "LET{+}A1{_}={_}B2{_}+{_}1", 'A1${_}={_}B2${_}+{_}"X  Y"', "IF{+}A1{_}={_}1{+}THEN{+}B2{_}={_}2{+}ELSE{+}B2{_}={_}3", "IF{+}A1{_}>{_}1{+}THEN{_}100",
    "IF{+}A1{_}={_}1{+}THEN{+}B2=1{+}ELSE{+}IF{+}A1{_}={_}2{+}THEN{+}B2=2{+}ELSE{+}B2=3",
    "FOR{+}I1{_}={_}1{+}TO{_}10{+}STEP{_}2", "FOR{+}I1{_}={_}A1{+}TO{+}B2", "NEXT{+}I1{_},{_}J2", "NEXT", "GOTO{_}100", "GOSUB{_}100", "ON{+}A1{+}GOTO{_}100{_},{_}100",
    "ON{+}A1{+}GOSUB{_}100", "ON{_}ERR{_}GOTO{_}100", "ON{_}BRK{_}GOTO{_}100", 'PRINT{+}A1{_};{_}B2${_},{_}"a  b"', "PRINT", "PRINT{+}A1$;", "PRINT{_}@{_}32{_},{_}A1$",
    'INPUT{_}"p  q"{_};{_}A1{_},{_}B2$', "INPUT{+}A1", "LINE{_}INPUT{+}A1$", "READ{+}A1{_},{_}B2$", "DIM{+}A1{_}({_}10{_}){_},{_}B2${_}({_}2{_},{_}3{_})", "DIM{+}A1$",
    "POKE{_}1024{_},{_}A1", "A1{_}({_}1{_},{_}2{_}){_}={_}3", "A1${_}({_}1{_}){_}={_}B2$", "CLS", "CLS{_}3", "END", "STOP", "RETURN", "RESTORE",
    "A1{_}={_}&HFF", "A1{_}={_}1.5E+3", "A1{_}={_}.5", "A1=ABS{_}({_}B2{_})", "A1$=LEFT${_}({_}B2${_},{_}2{_})", "A1$=MID${_}({_}B2${_},{_}2{_},{_}3{_})",
    "A1=INSTR{_}({_}1{_},{_}B2${_},{_}C3${_})", "A1=VAL{_}({_}B2${_})", "A1$=STR${_}({_}B2{_})", "A1$=STRING${_}({_}3{_},{_}B2${_})", "A1$=INKEY$", "A1=JOYSTK{_}({_}0{_})",
    "A1=-{_}B2", "A1=NOT{+}B2", "A1=({_}B2{_}+{_}1{_}){_}*{_}2", "A1=B2{+}AND{+}C3{+}OR{+}D4", "A1=B2{_}^{_}2{_}/{_}C3{_}-{_}1",
    'IF{+}A1${_}={_}"x"{+}AND{+}B2{_}<{_}3{+}THEN{_}100', "IF{_}({_}A1{_}={_}1{_}){+}OR{+}NOT{_}({_}B2{_}>{_}2{_}){+}THEN{_}100",
    "A1=1{_}:{_}B2=2{_}:{_}C3=3", "A1=&{_}H{_}FF", "A1=1{_}0", "A1=1{_}.{_}5{_}E{_}+{_}3", "A1=1{_}E{_}5", "A1=2{_}E{_}-{_}3", "A1=.5{_}E{_}2", "A1=B2{_}+{_}3{_}E{_}1", "A1=VARPTR{_}({_}B2{_})", "A1=PEEK{_}({_}1024{_})", "WIDTH{_}40", "LOCATE{_}1{_},{_}2", "A1=ERNO", "CLEAR{_}200", "A1=POINT{_}({_}1{_},{_}2{_})",
]
FORMS += ["READ{+}A1{_},{_}B2${_},{_}C3{_},{_}D4$", "INPUT{+}A1{_},{_}B2${_},{_}C3", 'INPUT{_}"p"{_};{_}A1{_},{_}B2{_},{_}C3$', "NEXT{+}I1{_},{_}J2{_},{_}K3", "DIM{+}A1{_},{_}B2${_}({_}2{_}){_},{_}C3{_}({_}4{_})",
          'PRINT{+}A1{_};{_}B2{_};{_}C3${_},{_}D4', "ON{+}A1{+}GOTO{_}100{_},{_}200{_},{_}100", "ON{+}A1{+}GOSUB{_}100{_},{_}200{_},{_}100", "A1=B2{_}+{_}C3{_}+{_}D4{_}-{_}1",
          "A1=B2{_}*{_}C3{_}/{_}D4{_}*{_}2", "A1=B2{+}AND{+}C3{+}AND{+}D4", "A1=B2{+}OR{+}C3{+}OR{+}D4", "A1{_}({_}1{_},{_}2{_},{_}3{_}){_}={_}B2{_}({_}3{_},{_}2{_},{_}1{_})",
          "A1=1{_}:{_}B2=2{_}:{_}C3=3{_}:{_}D4=4", 'A1$=B2${_}+{_}"x"{_}+{_}C3${_}+{_}"y"', "DATA 1{_},2{_},3", "A1=B2{_}^{_}2{_}^{_}3"]
# numerals of every shape directly in front of a keyword (the numeral must stop where the keyword starts, with or without blanks)
# (a hex numeral in front of AND / ELSE is left out: there the blank separates hex digits from a keyword that starts with one, like the
# blank between an identifier and a keyword)
FORMS += ["IF{+}A1=&HF{_}THEN{_}100", "FOR{+}I1=&HF{_}TO{_}&HF{_}STEP{_}&HF", "ON{+}A1+&HF{_}GOTO{_}100", "A1=&HF{_}OR{_}&H1F"]
for _n in ("2", "2.5", "2.", ".5", "2.5E1", "2E1"):
    FORMS += ["IF{+}A1=1{+}THEN{+}B2=%s{_}ELSE{+}B2=3" % _n, "IF{+}A1=1{+}THEN{+}B2=%s{_}ELSE{_}30" % _n, "IF{+}A1=%s{_}THEN{_}100" % _n, "FOR{+}I1=%s{_}TO{_}%s{_}STEP{_}%s" % (_n, _n, _n),
              "A1=%s{_}AND{_}%s{_}OR{_}%s" % (_n, _n, _n), "ON{+}A1+%s{_}GOTO{_}100" % _n, "IF{+}A1=1{+}THEN{+}B2=1{+}ELSE{+}IF{+}A1=%s{_}THEN{+}B2=%s{_}ELSE{_}40" % (_n, _n)]
FORMS += ["PRINT{+}" + "{_};{_}".join(["A1", "B2$", '"x y"'] * 20), "A1={_}" + "{_}+{_}".join(["B2"] * 70), "DATA " + "{_},".join(["12"] * 70)]
FORMS += [re.sub(r"^([A-Z]+) ", r"\\1{+}", t).replace("{e}", "A1").replace("{s}", "A1$").replace(",", "{_},{_}").replace("(", "{_}({_}").replace(")", "{_}){_}") for _, t, _, _ in ROWS]

KNOWN_LAYOUT = {}


def convert_or_refusal(src):
    """both entry points: convert() on the text and convert_file() on a file holding it (what the command line calls) - the verdict and the
    text must agree between the two as well"""
    import io
    from coco.b09.compiler import convert_file
    try:
        a = ("ok", convert(src, add_standard_prefix=False))
    except Exception as e:  # noqa
        a = ("refused", type(e).__name__)
    out = io.StringIO()
    try:
        convert_file(io.StringIO(src), out, add_standard_prefix=False)
        b = ("ok", out.getvalue().replace("\r", "\n"))
    except Exception as e:  # noqa
        b = ("refused", type(e).__name__)
    if a != b:
        return ("entry points disagree", "convert(): %s %s / convert_file(): %s %s" % (a[0], a[1][:60], b[0], b[1][:60]))
    return a


def forms():
    out = []
    for tmpl in sorted(set(FORMS)):
        oid = "layout/" + tmpl.replace("{_}", "").replace("{+}", " ")

        def run(tmpl=tmpl, oid=oid):
            results = {}
            for blanks in ("", " ", "  "):
                # {_}: optional blanks; {+}: a keyword next to an identifier keeps the one blank that separates them
                body = tmpl.replace("{_}", blanks).replace("{+}", " " + blanks)
                src = "100 %s%s\n" % (body, blanks)
                results[blanks] = convert_or_refusal(src)
            kinds = {r[0] for r in results.values()}
            vals = {r[1] for r in results.values()}
            ok = (kinds == {"refused"}) or (kinds == {"ok"} and len(vals) == 1)
            return [ob(oid, ok, "all spellings refused, or all converted to identical text", {repr(k): (v[0], v[1][:120]) for k, v in results.items()} if not ok else "identical (%s)" % list(kinds)[0])]
        out += guarded(oid, run)
    return out


def line_structure():
    def run():
        res = []
        lines = ["10 A=1", '20 PRINT "x  y";B', "30 GOTO 10"]
        base = convert_or_refusal("\n".join(lines) + "\n")
        variants = {}
        for eol in ("\n", "\r", "\r\n"):
            variants["eol=%r" % eol] = eol.join(lines)
            variants["eol=%r,final" % eol] = eol.join(lines) + eol
            variants["eol=%r,final2" % eol] = eol.join(lines) + eol + eol
            variants["eol=%r,blank-lines" % eol] = eol + eol + lines[0] + eol + eol + lines[1] + eol + lines[2] + eol
            variants["eol=%r,final,NUL" % eol] = eol.join(lines) + eol + "\x00"
            # a line that holds only blanks is a blank line
            variants["eol=%r,blank-lines-with-blanks-leading" % eol] = eol + "  " + eol + " " + eol + eol + " " + eol + eol.join(lines) + eol
            variants["eol=%r,two-runs-of-leading-blank-lines" % eol] = "  " + eol + eol + "  " + eol + eol.join(lines) + eol
            variants["eol=%r,blank-lines-with-blanks-between" % eol] = lines[0] + eol + "  " + eol + lines[1] + eol + eol + " " + eol + eol + lines[2] + eol
            variants["eol=%r,blank-lines-with-blanks-at-the-end" % eol] = eol.join(lines) + eol + "  " + eol + eol + " " + eol
        variants["NUL-glued"] = "\n".join(lines) + "\x00"
        variants["question-mark"] = "\n".join([lines[0], '20 ? "x  y";B', lines[2]]) + "\n"
        variants["blank-before-eol"] = "\n".join(l + "  " for l in lines) + "\n"
        for name, src in variants.items():
            got = convert_or_refusal(src)
            res.append(ob("lines/%s" % name, got == base, base[0], got if got != base else "identical"))
        # the same for listings that are unusual as a whole: a line number defined twice, descending numbers, a very long line
        for pname, plines in {"line number defined twice": ["10 A=1", "10 B=2", "20 GOTO 10"], "descending line numbers": ["30 A=1", "20 B=2", "10 END"],
                              "a 240-character line": ["10 A=1", "20 B$=\"" + "x" * 228 + "\"", "30 END"]}.items():
            outs = {}
            for eol in ("\n", "\r", "\r\n"):
                outs["eol=%r" % eol] = convert_or_refusal(eol.join(plines) + eol)
                outs["eol=%r,blank-lines" % eol] = convert_or_refusal(eol + plines[0] + eol + eol + plines[1] + eol + " " + eol + plines[2] + eol)
            ok = len(set(outs.values())) == 1
            res.append(ob("lines/%s, every line end" % pname, ok, "one verdict and one text", {k: (v[0], v[1][:60]) for k, v in outs.items()} if not ok else "identical (%s)" % next(iter(outs.values()))[0]))
        return res
    return guarded("lines", run)


def content():
    def run():
        res = []
        for src, needle in (('10 A$="a  b   c "\n', '"a  b   c "'), ("10 DATA  x  y ,2\n", "x  y "), ("10 REM  two  blanks\n", "  two  blanks"), ("10 'c  d\n", "c  d"),
                            ('10 INPUT "NAME  ";A$\n', '"NAME  ? "'), ('10 INPUT "  a  b ";A$\n', '"  a  b ? "'), ('10 LINE INPUT " x  ";A$\n', '" x  "'),
                            ('10 PRINT "  lead";" trail  "\n', '" trail  "'), ('10 IF A$="  " THEN 10\n', '"  "'),
                            # a literal left open runs to the end of its line, trailing blanks included
                            ('10 A$="HI  \n', '"HI  "'), ('10 LET A$="  \n', ':= "  "'), ('10 A$(1)="  x  \n', '"  x  "'), ('10 B=1:A$=" y \n', '" y "'), ('10 B$="HO  ', '"HO  "')):
            got = convert_or_refusal(src)
            res.append(ob("content/%s" % src.strip(), got[0] == "ok" and needle in got[1], "contains %r" % needle, got[1]))
        # blanks that are content stay content wherever the line stands: last line of the text (with every file ending) or not
        for stmt in ("DATA X  ", "DATA  a b  ,c  ", "REM X  ", "'tail   ", 'A$="HI  ', "PRINT \"a  \""):
            first = convert_or_refusal("10 %s\n20 END\n" % stmt)
            want = first[1].split("\n")[0] if first[0] == "ok" else first
            bad = []
            for ending in ("", "\n", "\n\n", "\r", "\r\n"):
                got = convert_or_refusal("5 END\n10 %s%s" % (stmt, ending))
                line = ([l for l in got[1].split("\n") if l.startswith("10 ")] or [got[1]])[0] if got[0] == "ok" else got
                if line != want:
                    bad.append(dict(ending=ending, as_last_line=line, followed_by_a_line=want))
            res.append(ob("content/last line keeps its blanks/%s" % stmt.strip(), not bad, "same translation as when another line follows", bad[:2] or "same for 5 file endings"))
        # signs of a numeral may be separated by blanks like everything else
        for tmpl in ("A=-{_}-5", "A=-{_}+5", "A=-{_}-{_}5", "A=B*-{_}-5", "FOR I=1 TO 9 STEP -{_}-1", "DATA -{_}-5"):
            results = {b: convert_or_refusal("10 %s\n" % tmpl.replace("{_}", b)) for b in ("", " ", "  ")}
            ok = len({r for r in results.values()}) == 1
            res.append(ob("content/sign runs/%s" % tmpl.replace("{_}", ""), ok, "all spellings refused, or all converted to identical text", {repr(k): (v[0], v[1][:80]) for k, v in results.items()} if not ok else "identical"))
        return res
    return guarded("content", run)


def question_mark():
    """`?` is Color BASIC's other spelling of PRINT: every PRINT form converts to the same text under both spellings"""
    def run():
        res = []
        forms = sorted({f for f in FORMS if f.startswith("PRINT")} | {"PRINT{_}@{_}64", "PRINT{_}@{_}A1{_}+{_}1", 'PRINT{_}@{_}5{_},{_}"A"', "PRINT{+}A1", "PRINT{_}TAB{_}({_}3{_});A1"})
        contexts = ["%s", "A1=1:%s", "%s:A1=1", "IF A1=1 THEN %s", "IF A1=1 THEN %s ELSE %s", "IF A1=1 THEN B2=2 ELSE %s"]
        for tmpl in forms:
            bad = []
            for blanks in ("", " "):
                body_p = tmpl.replace("{_}", blanks).replace("{+}", " " + blanks)
                rest = tmpl[len("PRINT"):]
                rest = rest[3:] if rest.startswith("{+}") or rest.startswith("{_}") else rest
                body_q = "?" + blanks + rest.replace("{_}", blanks).replace("{+}", " " + blanks)
                for ctx in contexts:
                    a = convert_or_refusal("100 " + ctx.replace("%s", body_p) + "\n")
                    b = convert_or_refusal("100 " + ctx.replace("%s", body_q) + "\n")
                    if a != b:
                        bad.append({"PRINT": (ctx.replace("%s", body_p), a[0], a[1][:80]), "?": (ctx.replace("%s", body_q), b[0], b[1][:80])})
            res.append(ob("question-mark/" + tmpl.replace("{_}", "").replace("{+}", " "), not bad, "identical results for PRINT and ?", bad[:2] or "identical"))
        return res
    return guarded("question-mark", run)


def obligations():
    return boundaries() + forms() + line_structure() + content() + question_mark()
