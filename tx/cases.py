"""Class contracts (families F3-V, F3-T, F3-K of DESIGN.md) for coco/b09/elements.py and the cases on which
they are checked.

A *case* builds one real object of the class under contract from opaque parts (every part stands for an arbitrary
construct of its kind) and states, independently of the code,
  * `text`  : the BASIC09 text the object must print (contract T: written from BASIC09 syntax and the properties),
  * `trace` : the events its visit() must produce, in order (contract V: own hooks, then every part, in source order),
  * `kind`  : what is_str_expr must answer (contract K).
Indentation is cosmetic in BASIC09: texts are compared after removing the leading blanks of every line.
"""
import itertools

from coco.b09 import elements as E
from tx.opaque import OpqExp, OpqStmt, OpqAny, mark

PROPS_EXPR = ("C01", "C05", "C07")
PROPS_STMT = ("C01", "C02", "C05", "C07")


class Case:
    def __init__(self, cls, label, build, text=None, trace=None, kind=None, props=(), indent=2, text_method=None, result_var_may_repeat=False):
        self.cls = cls
        self.label = label
        self.build = build          # () -> (obj, labels {id(obj): label})
        self.text = text            # (indent) -> str  | None
        self.trace = trace          # list | None
        self.kind = kind            # bool | None
        self.props = props
        self.indent = indent
        # a named functional expression shows its result variable as the last argument of its call *and* as itself: presenting
        # the result variable more than once is harmless (every pass is idempotent on a variable); operands stay exactly-once
        self.result_var_may_repeat = result_var_may_repeat


def ind(i):
    return "  " * i


def PRE(n, i):
    """text of n hoisted (pre-assignment) statements in front of a statement printed at indent i"""
    if n == 0:
        return ind(i)
    return ind(i) + " \\ ".join(str(mark("p%d" % k, 0)) for k in range(1, n + 1)) + " \\ "


def with_pre(obj, n):
    obj._pre_assignment_statements = [OpqStmt("p%d" % k) for k in range(1, n + 1)]
    return obj


def m(tag, i):
    return str(mark(tag, i))


OPS_ARITH = ["+", "-", "*", "/", "^", "=", "<>", "<", ">", "<=", ">=", "=<", "=>"]
CASES = []


def case(*a, **k):
    CASES.append(Case(*a, **k))


def lab(obj, **extra):
    d = {id(obj): "self"}
    for k, v in extra.items():
        d[id(v)] = k
    return d


# ------------------------------------------------------------------ expressions
for is_str in (False, True):
    def b(is_str=is_str):
        o = E.BasicArrayRef(E.BasicVar("AB$" if is_str else "AB", is_str_expr=is_str),
                            E.BasicExpressionList([OpqExp("e1"), OpqExp("e2")]), is_str_expr=is_str)
        return o, lab(o)
    nm = "arr_AB$" if is_str else "arr_AB"
    case("BasicArrayRef", "2 subscripts, str=%d" % is_str, b,
         text=lambda i, nm=nm: nm + "(" + m("e1", i) + ", " + m("e2", i) + ")",
         trace=[("hook", "array_ref", "self"), ("child", "e1"), ("child", "e2")], kind=is_str, props=("C01", "C05", "C07", "C09"))

for op in OPS_ARITH + ["AND", "OR"]:
    for is_str in (False, True):
        def b(op=op, is_str=is_str):
            o = E.BasicBinaryExp(OpqExp("e1", is_str), op, OpqExp("e2", is_str), is_str_expr=is_str)
            return o, lab(o)
        if op in ("AND", "OR"):
            t = lambda i, op=op: "L" + op + "(" + m("e1", i) + ", " + m("e2", i) + ")"
        else:
            t = lambda i, op=op: m("e1", i) + " " + op + " " + m("e2", i)
        case("BasicBinaryExp", "op=%s,str=%d" % (op, is_str), b, text=t,
             trace=[("hook", "exp", "self"), ("child", "e1"), ("child", "e2")], kind=is_str, props=("C01", "C05", "C07", "C14"))

for op in ["=", "<>", "<", ">", "<=", ">=", "=<", "=>", "AND", "OR"]:
    def b(op=op):
        o = E.BasicBooleanBinaryExp(OpqExp("e1"), op, OpqExp("e2"))
        return o, lab(o)
    case("BasicBooleanBinaryExp", "op=%s" % op, b, text=lambda i, op=op: m("e1", i) + " " + op + " " + m("e2", i),
         trace=[("hook", "exp", "self"), ("child", "e1"), ("child", "e2")], props=PROPS_EXPR)

for op in ["NOT", "-", "+"]:
    def b(op=op):
        o = E.BasicOpExp(op, OpqExp("e1"))
        return o, lab(o)
    case("BasicOpExp", "op=%s" % op, b,
         text=(lambda i: "LNOT(" + m("e1", i) + ")") if op == "NOT" else (lambda i, op=op: op + " " + m("e1", i)),
         trace=[("hook", "exp", "self"), ("child", "e1")], props=PROPS_EXPR)

    def b2(op=op):
        o = E.BasicBooleanOpExp(op, OpqExp("e1"))
        return o, lab(o)
    case("BasicBooleanOpExp", "op=%s" % op, b2,
         text=(lambda i: "NOT(" + m("e1", i) + ")") if op == "NOT" else (lambda i, op=op: op + " " + m("e1", i)),
         trace=[("hook", "exp", "self"), ("child", "e1")], props=PROPS_EXPR)

for is_str in (False, True):
    for cls in ("BasicParenExp", "BasicBooleanParenExp"):
        def b(cls=cls, is_str=is_str):
            o = getattr(E, cls)(OpqExp("e1", is_str))
            return o, lab(o)
        case(cls, "str=%d" % is_str, b, text=lambda i: "(" + m("e1", i) + ")",
             trace=[("hook", "exp", "self"), ("child", "e1")], kind=is_str, props=PROPS_EXPR)

for lit, txt, k in [(3, "3", False), (0, "0", False), (2.5, "2.5", False), (1e21, "1e+21", False), (0.0, "0.0", False),
                    ("", '""', True), ("AB C", '"AB C"', True), (" x ", '" x "', True)]:
    def b(lit=lit, k=k):
        o = E.BasicLiteral(lit, is_str_expr=k)
        return o, lab(o)
    case("BasicLiteral", "literal=%r" % (lit,), b, text=lambda i, txt=txt: txt, trace=[("hook", "exp", "self")], kind=k, props=("C01", "C03", "C05", "C07"))

for name, k in [("A", False), ("A1", False), ("AB$", True), ("display", False), ("tmp_1$", True)]:
    def b(name=name, k=k):
        o = E.BasicVar(name, is_str_expr=k)
        return o, lab(o)
    case("BasicVar", name, b, text=lambda i, name=name: name, trace=[("hook", "var", "self")], kind=k, props=("C01", "C05", "C07", "C09"))

for op in ["+", "AND", "<>"]:
    def b(op=op):
        o = E.BasicOperator(op)
        return o, lab(o)
    case("BasicOperator", op, b, text=lambda i, op=op: op, trace=[], props=("C01", "C07"))

for n in range(0, 4):
    for parens in (True, False):
        def b(n=n, parens=parens):
            o = E.BasicExpressionList([OpqExp("e%d" % k) for k in range(1, n + 1)], parens=parens)
            return o, lab(o)

        def t(i, n=n, parens=parens):
            inner = ", ".join(m("e%d" % k, i) for k in range(1, n + 1))
            if parens:
                return "(" + inner + ")" if n else ""
            return inner
        case("BasicExpressionList", "n=%d,parens=%d" % (n, parens), b, text=t,
             trace=[("child", "e%d" % k) for k in range(1, n + 1)], props=("C01", "C04", "C05", "C07"))

for func, is_str in [("ABS", False), ("LEFT$", True)]:
    def b(func=func, is_str=is_str):
        o = E.BasicFunctionCall(func, E.BasicExpressionList([OpqExp("a1"), OpqExp("a2")]), is_str_expr=is_str)
        return o, lab(o)
    # V: a built-in call is an expression (own hook) whose arguments are parts
    case("BasicFunctionCall", func, b, text=lambda i, func=func: func + "(" + m("a1", i) + ", " + m("a2", i) + ")",
         trace=[("hook", "exp", "self"), ("child", "a1"), ("child", "a2")], kind=is_str, props=("C01", "C03", "C05", "C07", "C10"))

for is_str in (False, True):
    # un-named functional expression (before the patcher names it): arguments first (innermost first), then itself
    def b(is_str=is_str):
        o = E.BasicFunctionalExpression("run ecb_x", E.BasicExpressionList([OpqExp("a1"), OpqExp("a2")]), is_str_expr=is_str)
        return o, lab(o)
    case("BasicFunctionalExpression", "unnamed,str=%d" % is_str, b, text=None,
         trace=[("child", "a1"), ("child", "a2"), ("hook", "exp", "self")], kind=is_str, props=("C05",))

    # named: prints as its variable; later passes must still see its arguments and its variable
    def b2(is_str=is_str):
        o = E.BasicFunctionalExpression("run ecb_x", E.BasicExpressionList([OpqExp("a1"), OpqExp("a2")]), is_str_expr=is_str)
        o.set_var(OpqExp("v", is_str))
        return o, lab(o)
    case("BasicFunctionalExpression", "named,str=%d" % is_str, b2, text=lambda i: m("v", i),
         trace=[("child", "a1"), ("child", "a2"), ("child", "v")], kind=is_str, props=("C05", "C07", "C10"), result_var_may_repeat=True)

    def b3(is_str=is_str):
        o = E.BasicFunctionalExpression("run ecb_x", E.BasicExpressionList([OpqExp("a1"), OpqExp("a2")]), is_str_expr=is_str)
        o.set_var(OpqExp("v", is_str))
        return o.statement, lab(o.statement)
    # the call that the hoisting prints: all source operands, then the result variable (C04/C05/C14)
    case("BasicFunctionalExpression.statement", "str=%d" % is_str, b3,
         text=lambda i: "run ecb_x(" + m("a1", i) + ", " + m("a2", i) + ", " + m("v", i) + ")", trace=None, props=("C04", "C05", "C07", "C14"))


def _joy(named):
    def b():
        o = E.BasicJoystkExpression(E.BasicExpressionList([OpqExp("a1")]))
        if named:
            o.set_var(OpqExp("v"))
        return o, lab(o)
    return b


case("BasicJoystkExpression", "unnamed", _joy(False), text=None,
     trace=[("child", "a1"), ("hook", "exp", "self"), ("hook", "joystk", "self")], kind=False, props=("C04", "C05"))
case("BasicJoystkExpression", "named", _joy(True), text=lambda i: m("v", i),
     trace=[("child", "a1"), ("child", "v"), ("hook", "joystk", "self")], kind=False, props=("C04", "C05"), result_var_may_repeat=True)


def _varptr():
    o = E.BasicVarptrExpression(OpqExp("v"))
    return o, lab(o)


# the operand of VARPTR is a part like any other: it must be traversed (subscripts may hold functions)
case("BasicVarptrExpression", "", _varptr, text=lambda i: "ADDR(" + m("v", i) + ")",
     trace=[("hook", "exp", "self"), ("child", "v")], props=("C05", "C07", "C09"))

for hexs, isf, txt in [("FF", False, "$FF"), ("7FFF", False, "$7FFF"), ("8000", False, "32768"), ("FFFF", False, "65535"),
                       ("0", False, "$0"), ("FF", True, "float($FF)"), ("8000", True, "32768.0"), ("12345", True, "74565.0")]:
    def b(hexs=hexs, isf=isf):
        o = E.HexLiteral(hexs, is_float=isf)
        return o, lab(o)
    case("HexLiteral", "%s,float=%d" % (hexs, isf), b, text=lambda i, txt=txt: txt, trace=[("hook", "exp", "self")], kind=False, props=("C01", "C07"))

# ------------------------------------------------------------------ statements
for npre in (0, 2):
    for let in (False, True):
        def b(npre=npre, let=let):
            o = with_pre(E.BasicAssignment(OpqExp("v"), OpqExp("e"), let_kw=let), npre)
            return o, lab(o)
        case("BasicAssignment", "pre=%d,let=%d" % (npre, let), b,
             text=lambda i, npre=npre, let=let: PRE(npre, i) + ("LET " if let else "") + m("v", i) + " := " + m("e", i),
             trace=[("hook", "statement", "self"), ("child", "v"), ("child", "e")], props=PROPS_STMT)

    def bf(npre=npre):
        f = E.BasicFunctionalExpression("RUN ecb_int", E.BasicExpressionList([OpqExp("a1")]))
        v = OpqExp("v")
        f.set_var(v)        # what the patcher does for `v = FN(a1)`
        o = with_pre(E.BasicAssignment(v, f), npre)
        return o, lab(o)
    case("BasicAssignment", "pre=%d,functional rhs" % npre, bf,
         text=lambda i, npre=npre: PRE(npre, i) + "RUN ecb_int(" + m("a1", i) + ", " + m("v", i) + ")",
         trace=[("hook", "statement", "self"), ("child", "v"), ("child", "a1"), ("child", "v")], props=PROPS_STMT + ("C04",), result_var_may_repeat=True)

    def bc(npre=npre):
        o = E.BasicComment(" hello \"x")
        return o, lab(o)
    if npre == 0:
        case("BasicComment", "", bc, text=lambda i: "(* hello \"x *)", trace=[("hook", "statement", "self")], props=("C07", "C08", "C13"))

    for n in (0, 2):
        def b(npre=npre, n=n):
            o = with_pre(E.BasicRunCall("RUN ecb_y", E.BasicExpressionList([OpqExp("e%d" % k) for k in range(1, n + 1)])), npre)
            return o, lab(o)

        def t(i, npre=npre, n=n):
            return PRE(npre, i) + "RUN ecb_y" + ("(" + ", ".join(m("e%d" % k, i) for k in range(1, n + 1)) + ")" if n else "")
        case("BasicRunCall", "pre=%d,n=%d" % (npre, n), b, text=t,
             trace=[("hook", "statement", "self")] + [("child", "e%d" % k) for k in range(1, n + 1)], props=PROPS_STMT + ("C04",))

    for gosub in (False, True):
        def b(npre=npre, gosub=gosub):
            o = with_pre(E.BasicGoto(120, False, is_gosub=gosub), npre)
            return o, lab(o)
        case("BasicGoto", "explicit,pre=%d,gosub=%d" % (npre, gosub), b,
             text=lambda i, npre=npre, gosub=gosub: PRE(npre, i) + ("GOSUB 120" if gosub else "GOTO 120"),
             trace=[("hook", "statement", "self"), ("hook", "go_statement", "self")], props=("C02", "C05", "C06", "C07"))

    for gosub in (False, True):
        for n in (1, 3):
            def b(npre=npre, gosub=gosub, n=n):
                o = with_pre(E.BasicOnGoStatement(OpqExp("e"), [100, 20, 3000][:n], is_gosub=gosub), npre)
                return o, lab(o)
            case("BasicOnGoStatement", "pre=%d,gosub=%d,n=%d" % (npre, gosub, n), b,
                 text=lambda i, npre=npre, gosub=gosub, n=n: PRE(npre, i) + "ON " + m("e", i) + (" GOSUB " if gosub else " GOTO ") + ", ".join(str(x) for x in [100, 20, 3000][:n]),
                 trace=[("hook", "statement", "self"), ("hook", "go_statement", "self"), ("child", "e")], props=("C01", "C02", "C05", "C06", "C07"))

    def b(npre=npre):
        o = with_pre(E.BasicIf(OpqExp("c"), OpqStmt("s")), npre)
        return o, lab(o)
    case("BasicIf", "block,pre=%d" % npre, b,
         text=lambda i, npre=npre: PRE(npre, i) + "IF " + m("c", i) + " THEN\n" + m("s", i + 1) + "\nENDIF",
         trace=[("hook", "statement", "self"), ("child", "c"), ("child", "s")], props=PROPS_STMT + ("C06",))

    def b(npre=npre):
        g = E.BasicGoto(500, True)
        o = with_pre(E.BasicIf(OpqExp("c"), g), npre)
        return o, lab(o, goto=g)
    case("BasicIf", "THEN <line>,pre=%d" % npre, b,
         text=lambda i, npre=npre: PRE(npre, i) + "IF " + m("c", i) + " THEN 500",
         trace=[("hook", "statement", "self"), ("child", "c"), ("hook", "statement", "goto"), ("hook", "go_statement", "goto")], props=PROPS_STMT + ("C06",))

    for nelif in (0, 1, 2):
        for has_else in (False, True):
            def b(npre=npre, nelif=nelif, has_else=has_else):
                arms = [E.BasicIf(OpqExp("c%d" % k), OpqStmt("s%d" % k)) for k in range(1, nelif + 1)]
                o = with_pre(E.BasicIfElse(if_exp=OpqExp("c0"), then_statements=OpqStmt("s0"), else_if_statements=arms,
                                           else_statements=OpqStmt("se") if has_else else None), npre)
                d = lab(o)
                for k, a in enumerate(arms):
                    d[id(a)] = "arm%d" % (k + 1)
                return o, d

            def t(i, npre=npre, nelif=nelif, has_else=has_else):
                # BASIC09 has no ELSE IF: a chain is a LOOP of EXITIF arms.  Every path through the LOOP must leave it
                # (C02): after the last arm there is an unconditional exit, with the ELSE body if there is one.
                if nelif == 0:
                    return (PRE(npre, i) + "IF " + m("c0", 0) + " THEN\n" + m("s0", i + 1) + "\n"
                            + ("ELSE\n" + m("se", i + 1) + "\n" if has_else else "") + "ENDIF")
                arms = "".join("EXITIF " + m("c%d" % k, 0) + " THEN\n" + m("s%d" % k, i + 2) + "\nENDEXIT\n" for k in range(0, nelif + 1))
                last = "EXITIF TRUE THEN\n" + (m("se", i + 2) + "\n" if has_else else "") + "ENDEXIT\n"
                return PRE(npre, i) + "LOOP\n" + arms + last + "ENDLOOP"
            tr = [("hook", "statement", "self"), ("child", "c0"), ("child", "s0")]
            for k in range(1, nelif + 1):
                tr += [("hook", "statement", "arm%d" % k), ("child", "c%d" % k), ("child", "s%d" % k)]
            if has_else:
                tr.append(("child", "se"))
            case("BasicIfElse", "pre=%d,elif=%d,else=%d" % (npre, nelif, has_else), b, text=t, trace=tr, props=PROPS_STMT + ("C06",))

    for gosub_kw in ("END", "RETURN", "STOP", "RESTORE"):
        def b(npre=npre, kw=gosub_kw):
            o = with_pre(E.BasicKeywordStatement(kw), npre)
            return o, lab(o)
        case("BasicKeywordStatement", "%s,pre=%d" % (gosub_kw, npre), b, text=lambda i, npre=npre, kw=gosub_kw: PRE(npre, i) + kw,
             trace=[("hook", "statement", "self")], props=("C02", "C07"))

    def b(npre=npre):
        o = with_pre(E.Basic09CodeStatement("base 0"), npre)
        return o, lab(o)
    case("Basic09CodeStatement", "pre=%d" % npre, b, text=lambda i, npre=npre: PRE(npre, i) + "base 0", trace=[("hook", "statement", "self")], props=("C07",))

    for step in (False, True):
        def b(npre=npre, step=step):
            o = with_pre(E.BasicForStatement(OpqExp("v"), OpqExp("a"), OpqExp("b"), OpqExp("st") if step else None), npre)
            return o, lab(o)
        case("BasicForStatement", "pre=%d,step=%d" % (npre, step), b,
             text=lambda i, npre=npre, step=step: PRE(npre, i) + "FOR " + m("v", i) + " = " + m("a", i) + " TO " + m("b", i) + (" STEP " + m("st", i) if step else ""),
             trace=[("hook", "statement", "self"), ("hook", "for_statement", "self"), ("child", "v"), ("child", "a"), ("child", "b")] + ([("child", "st")] if step else []),
             props=PROPS_STMT)

    for n in (0, 1, 2):
        def b(npre=npre, n=n):
            o = with_pre(E.BasicNextStatement(E.BasicExpressionList([OpqExp("v%d" % k) for k in range(1, n + 1)])), npre)
            return o, lab(o)
        case("BasicNextStatement", "pre=%d,n=%d" % (npre, n), b,
             text=lambda i, npre=npre, n=n: PRE(npre, i) + (" \\ ".join("NEXT " + m("v%d" % k, i) for k in range(1, n + 1)) if n else "NEXT"),
             trace=[("hook", "statement", "self"), ("hook", "next_statement", "self")] + [("child", "v%d" % k) for k in range(1, n + 1)], props=PROPS_STMT)

    def b(npre=npre):
        o = with_pre(E.BasicDataStatement(OpqAny("lst")), npre)
        return o, lab(o)
    case("BasicDataStatement", "pre=%d" % npre, b, text=lambda i, npre=npre: PRE(npre, i) + "DATA " + m("lst", i),
         trace=[("hook", "statement", "self"), ("hook", "data_statement", "self")], props=("C03", "C07"))

    def b(npre=npre):
        o = with_pre(E.BasicPrintStatement(OpqAny("args")), npre)
        return o, lab(o)
    case("BasicPrintStatement", "pre=%d" % npre, b, text=lambda i, npre=npre: PRE(npre, i) + "PRINT " + m("args", i),
         trace=[("hook", "statement", "self"), ("child", "args")], props=("C01", "C03", "C05", "C07"))

    def b(npre=npre):
        o = with_pre(E.BasicSound(OpqExp("e1"), OpqExp("e2")), npre)
        return o, lab(o)
    case("BasicSound", "pre=%d" % npre, b,
         text=lambda i, npre=npre: PRE(npre, i) + "RUN ecb_sound(" + m("e1", i) + ", " + m("e2", i) + ", 31.0, FIX(play.octo))",
         trace=[("hook", "statement", "self"), ("child", "e1"), ("child", "e2")], props=("C04", "C05", "C07", "C14"))

    for variant in ("opaque", "65496", "65497", "hex65496", "hex65497", "other-literal"):
        def b(npre=npre, variant=variant):
            a = {"opaque": OpqExp("e1"), "65496": E.BasicLiteral(65496.0), "65497": E.BasicLiteral(65497.0),
                 "hex65496": E.HexLiteral("FFD8", is_float=True), "hex65497": E.HexLiteral("FFD9", is_float=True),
                 "other-literal": E.BasicLiteral(1024.0)}[variant]
            o = with_pre(E.BasicPoke(a, OpqExp("e2")), npre)
            return o, lab(o, addr=a)

        def t(i, npre=npre, variant=variant):
            if variant in ("65496", "hex65496"):
                return PRE(npre, i) + "play.octo := 0"
            if variant in ("65497", "hex65497"):
                return PRE(npre, i) + "play.octo := 1"
            a = {"opaque": m("e1", i), "other-literal": "1024.0"}[variant]
            return PRE(npre, i) + "POKE " + a + ", " + m("e2", i)
        tr = [("hook", "statement", "self")] + ([("child", "e1")] if variant == "opaque" else [("hook", "exp", "addr")]) + [("child", "e2")]
        case("BasicPoke", "pre=%d,%s" % (npre, variant), b, text=t, trace=tr, props=("C04", "C05", "C07"))

    for has in (False, True):
        def b(npre=npre, has=has):
            o = with_pre(E.BasicCls(OpqExp("e") if has else None), npre)
            return o, lab(o)
        case("BasicCls", "pre=%d,operand=%d" % (npre, has), b,
             text=lambda i, npre=npre, has=has: PRE(npre, i) + "RUN ecb_cls(" + (m("e", i) if has else "1.0") + ", display)",
             trace=[("hook", "statement", "self")] + ([("child", "e")] if has else []), props=("C04", "C05", "C07", "C14"))

    def b(npre=npre):
        o = with_pre(E.BasicWidthStatement(OpqExp("e")), npre)
        return o, lab(o)
    case("BasicWidthStatement", "pre=%d" % npre, b,
         text=lambda i, npre=npre: PRE(npre, i) + "run _ecb_width(" + m("e", i) + ", display)",
         trace=[("hook", "statement", "self"), ("child", "e")], props=("C04", "C05", "C07", "C14"))

    def b(npre=npre):
        o = E.BasicReadStatement([OpqExp("r1"), OpqExp("r2")])
        with_pre(o, npre)
        return o, lab(o)
    case("BasicReadStatement", "pre=%d" % npre, b, text=lambda i, npre=npre: PRE(npre, i) + "READ " + m("r1", i) + ", " + m("r2", i),
         trace=[("hook", "statement", "self"), ("child", "r1"), ("child", "r2")], props=("C03", "C05", "C07", "C10"))

for has_msg in (False, True):
    def b(has_msg=has_msg):
        o = E.BasicInputStatement(OpqExp("msg") if has_msg else None, [OpqExp("r1"), OpqExp("r2")])
        return o, lab(o)
    case("BasicInputStatement", "prompt=%d" % has_msg, b,
         text=lambda i, has_msg=has_msg: ind(i) + "INPUT " + (m("msg", i) + ", " if has_msg else "") + m("r1", i) + ", " + m("r2", i),
         trace=[("hook", "statement", "self")] + ([("child", "msg")] if has_msg else []) + [("child", "r1"), ("child", "r2")], props=("C03", "C05", "C07", "C10"))

for cls in ("BasicOnErrGoStatement", "BasicOnBrkGoStatement"):
    def b(cls=cls):
        o = getattr(E, cls)(450)
        return o, lab(o)
    case(cls, "", b, text=lambda i: "ON ERROR GOTO 32700", trace=[("hook", "statement", "self"), ("hook", "go_statement", "self")], props=("C06", "C07"))


def _igoto():
    o = E.BasicGoto(77, True)
    return o, lab(o)


case("BasicGoto", "implicit", _igoto, text=lambda i: "77", trace=[("hook", "statement", "self"), ("hook", "go_statement", "self")], props=("C02", "C06", "C07"))

for num, ref in itertools.product((None, 0, 10, 32699), (False, True)):
    def b(num=num, ref=ref):
        o = E.BasicLine(num, OpqStmt("s"))
        o.set_is_referenced(ref)
        return o, lab(o)
    case("BasicLine", "num=%s,referenced=%d" % (num, ref), b,
         text=lambda i, num=num, ref=ref: (str(num) + " " if (ref and num is not None) else "") + m("s", i),
         trace=[("hook", "line", "self"), ("child", "s")], props=("C02", "C06", "C07"))

# BasicStatements: sequencing (C02) and the replacement protocol of print/read/input (C03/C05)
for multi in (True, False):
    def b(multi=multi):
        o = E.BasicStatements([OpqStmt("s1"), OpqStmt("s2"), OpqStmt("s3")], multi_line=multi)
        return o, lab(o)
    case("BasicStatements", "3 statements,multi_line=%d" % multi, b,
         text=lambda i, multi=multi: ("\n" if multi else " \\ ").join(m("s%d" % k, i if multi else 0) for k in (1, 2, 3)),
         trace=[("child", "s1"), ("child", "s2"), ("child", "s3")], props=("C02", "C05", "C07"))


def _nested():
    inner = E.BasicStatements([OpqStmt("s4"), OpqStmt("s5")], multi_line=False)
    o = E.BasicStatements([inner, OpqStmt("s2")], multi_line=True)
    return o, lab(o)


case("BasicStatements", "nested group first", _nested,
     text=lambda i: ind(i) + m("s4", 0) + " \\ " + m("s5", 0) + "\n" + m("s2", i), trace=[("child", "s4"), ("child", "s5"), ("child", "s2")], props=("C02", "C05", "C07"))


def _empty_stmts():
    o = E.BasicStatements([], multi_line=True)
    return o, lab(o)


case("BasicStatements", "empty", _empty_stmts, text=lambda i: "", trace=[], props=("C02",))

# print list reconstruction (C03): juxtaposition reads as `;`, an absent item as ""
PCTL = {";": ";", ",": ","}
for shape in ["e", "e;", "e,e", "ee", ";e", ",,e", "e;e,e", ";", "", "e;;e", "ee;", "ue", "eu", "uu;", "le", "ve", "fe", "eue"]:
    def b(shape=shape):
        k = 0
        args = []
        for ch in shape:
            if ch in "eulvf":
                k += 1
                o = OpqExp("e%d" % k, True)
                # an item is an item whatever class it has: unary-operator expression, literal, variable, function call
                args.append({"e": o, "u": E.BasicOpExp("-", o), "l": E.BasicParenExp(o), "v": E.BasicBinaryExp(o, "+", OpqExp("x%d" % k, True), is_str_expr=True),
                             "f": E.BasicFunctionCall("CHR$", E.BasicExpressionList([o]), is_str_expr=True)}[ch])
            else:
                args.append(E.BasicPrintControl(ch))
        o = E.BasicPrintArgs(args)
        return o, lab(o)

    def t(i, shape=shape):
        # BASIC09 print list: items separated by exactly one separator; Color BASIC additionally allows
        # juxtaposition (= `;`) and empty items (printed as "")
        out = []
        k = 0
        prev = None   # 'e' | 'c' | None
        for idx, ch in enumerate(shape):
            if ch in "eulvf":
                k += 1
                if prev == "e":
                    out.append("; ")
                t = m("e%d" % k, i)
                out.append({"e": t, "u": "- " + t, "l": "(" + t + ")", "v": t + " + " + m("x%d" % k, i), "f": "CHR$(" + t + ")"}[ch])
                prev = "e"
            else:
                if prev in (None, "c"):
                    out.append('""')
                out.append(ch)
                if idx < len(shape) - 1:
                    out.append(" ")
                prev = "c"
        return "".join(out)
    case("BasicPrintArgs", "shape=%r" % shape, b, text=t, trace=None if set(shape) & set("ulvf") else [("child", "e%d" % k) for k in range(1, shape.count("e") + 1)], props=("C03", "C05", "C07"))
