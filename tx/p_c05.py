"""C05-specific obligations: step contracts of the hoisting pass, freshness of temporaries, the replacement
protocol of BasicStatements.visit, and the ownership order of the visit contracts."""
from coco.b09 import elements as E
from coco.b09 import visitors as V
from tx.tier import THOROUGH, pick
from tx import opaque
from tx.opaque import OpqExp, OpqStmt, RecordingVisitor, TRACE, OpaqueUse


def ob(oid, ok, expected, actual, detail="", **kw):
    d = dict(id=oid, ok=bool(ok), expected=expected, actual=actual, detail=detail, family="step")
    d.update(kw)
    return d


def share(prefix, obs):
    """obligations of another property's module stated here too: new id, the recorded known findings follow the original id"""
    return [dict(o, id=prefix + o["id"], finding_key=o.get("finding_key", o["id"])) for o in obs]


def guarded(oid, fn, detail=""):
    try:
        return fn()
    except OpaqueUse as e:
        return [ob(oid, False, "no inspection of opaque parts", "opaque part inspected: %s" % e, detail)]
    except Exception as e:  # noqa
        return [ob(oid, False, "no exception", "%s: %s" % (type(e).__name__, e), detail)]


def norm(t):
    from tx.run_cases import norm as _n
    return _n(t)


def functional(tag, is_str=False, nargs=1):
    return E.BasicFunctionalExpression("run ecb_" + tag, E.BasicExpressionList([OpqExp("%s_a%d" % (tag, k)) for k in range(1, nargs + 1)]), is_str_expr=is_str)


def read_targets_through_filter():
    """through convert(): with an empty DATA item every numeric READ target goes through a string temporary and the read filter - a
    convertible function in the subscript of such a target is called once, before the filter call that stores into the element"""
    def run():
        import re
        from coco.b09.compiler import convert
        res = []
        src = "10 DATA 1,,3\n20 READ A(INT(I/2)),B$,C(BUTTON(0)+JOYSTK(1))\n30 READ D(INT(J))\n40 READ E,F(2),G$\n"
        want = {"20": ["ecb_int", "ecb_read_filter", "ecb_button", "ecb_joystk", "ecb_read_filter"], "30": ["ecb_int", "ecb_read_filter"], "40": ["ecb_read_filter", "ecb_read_filter"]}
        for filt in (False, True):
            text = convert(src, add_standard_prefix=False, filter_unused_linenum=False, initialize_vars=filt)
            for num, names in want.items():
                line = next((l for l in text.split("\n") if l.startswith(num + " ")), "")
                got = re.findall(r"RUN (\w+)\(", line, flags=re.I)
                stores = re.findall(r"ecb_read_filter\(tmp_\d+\$, ([^\\]*?)\)\s*(?:\\|$)", line)
                empty = [t for t in stores if re.search(r"\(\s*[+\-*/]?\s*\)|^arr_\w+\$?$", t)]
                res.append(ob("read-filter/calls in the subscripts of READ targets, line %s,init=%d" % (num, filt), sorted(got) == sorted(names) and got[-1:] == names[-1:] and not empty, names, got if not empty else "subscript lost: %s" % empty, line))
        # each slot of the READ list feeds the target that stood in that slot: the k-th temporary goes to the k-th numeric target
        for srcline, want in {"READ A(1),B": [("tmp_1$", "arr_A(1.0)"), ("tmp_2$", "B")], "READ A(1),B,A": [("tmp_1$", "arr_A(1.0)"), ("tmp_2$", "B"), ("tmp_3$", "A")],
                              "READ B,A(1),C$,A": [("tmp_1$", "B"), ("tmp_2$", "arr_A(1.0)"), ("tmp_3$", "A")], "READ Z(2,1),Z,Y(Z)": [("tmp_1$", "arr_Z(2.0, 1.0)"), ("tmp_2$", "Z"), ("tmp_3$", "arr_Y(Z)")]}.items():
            text = convert("10 DATA 1,,3\n20 %s\n" % srcline, add_standard_prefix=False)
            line = next((l for l in text.split("\n") if l.startswith("20 ")), "")
            slots = [s.strip() for s in line[len("20 READ "):].split(" \\ ")[0].split(",")]
            pairs = re.findall(r"ecb_read_filter\((tmp_\d+\$), (.*?)\)(?: \\|$)", line)
            tmps_in_slots = [s for s in slots if s.startswith("tmp_")]
            res.append(ob("read-filter/slot k feeds target k/%s" % srcline, pairs == want and tmps_in_slots == [w[0] for w in want], want, dict(slots=slots, filters=pairs), line))
        return res
    return guarded("read-filter", run)


def call_order_through_convert():
    """through convert(): the calls of one statement are made in the order in which Color BASIC evaluates the functions - left to right,
    operands before the function that takes them - whichever functions they are (no function is 'sampled first')"""
    def run():
        import re
        from coco.b09.compiler import convert
        res = []
        fns = {"BUTTON(1)": ["ecb_button"], "JOYSTK(0)": ["ecb_joystk"], "JOYSTK(1)": ["ecb_joystk"], "INT(A)": ["ecb_int"], "VAL(A$)": ["ecb_val"], "POINT(1,2)": ["ecb_point"], "INSTR(1,A$,B$)": ["ecb_instr"],
               "LEN(STR$(A))": ["ecb_str"], "ASC(INKEY$)": ["inkey"], "LEN(HEX$(3))": ["ecb_hex"], "INT(VAL(A$))": ["ecb_val", "ecb_int"], "BUTTON(JOYSTK(0))": ["ecb_joystk", "ecb_button"],
               "VAL(STR$(X))": ["ecb_str", "ecb_val"], "INSTR(1,HEX$(X),STR$(Y))": ["ecb_hex", "ecb_str", "ecb_instr"], "VAL(STRING$(2,A$))": ["ecb_string", "ecb_val"], "INT(LEN(STR$(INT(A))))": ["ecb_int", "ecb_str", "ecb_int"]}
        frames = {"sum": "X=%s+%s", "PRINT items": "PRINT %s;%s", "comparison": "IF %s>%s THEN 10", "arguments": "SOUND %s,%s", "subscripts": "Q(%s,%s)=1", "ON selector": "ON %s+%s GOTO 10,10", "ON GOSUB selector": "ON %s*%s GOSUB 10", "FOR bounds": "FOR I=%s TO %s:NEXT",
                  "string function arguments": "A$=LEFT$(B$,%s)+CHR$(%s)"}
        for fname, frame in frames.items():
            bad, n = [], 0
            for f, fc in fns.items():
                for g, gc in fns.items():
                    n += 1
                    src = "10 " + frame % (f, g)
                    text = convert(src + "\n", add_standard_prefix=False)
                    line = next(l for l in text.split("\n") if l.startswith("10 "))
                    got = [c for c in re.findall(r"(?i)run (\w+)\(", re.sub(r'"[^"]*"', '""', line)) if c in ("ecb_button", "ecb_joystk", "ecb_int", "ecb_val", "ecb_point", "ecb_instr", "inkey", "ecb_hex", "ecb_string") or (c == "ecb_str" and "STR$" in src)]
                    want = fc + gc
                    if fname == "PRINT items":      # numeric print items are formatted by ecb_str calls of their own: compare the others
                        got = [c for c in got if c != "ecb_str"]
                        want = [c for c in want if c != "ecb_str"]
                    if [c for c in got if c in set(want)] != want:
                        bad.append("%s -> %s" % (src, got))
            res.append(ob("call-order/%s" % fname, not bad, "calls in source order for all %d ordered pairs" % n, bad[:3] or "%d pairs" % n))
        return res
    return guarded("call-order", run)


def direct_delivery():
    """`target = F(args)` is exactly one call that stores into the target, for every kind of target, with and without LET (shared with C07: the emitted
    statement is a RUN statement, not `LET RUN ...`)"""
    def step7():
        res = []
        targets = {
            "numeric scalar": (lambda: E.BasicVar("X"), False, "X"), "string scalar": (lambda: E.BasicVar("X$", True), True, "X$"),
            "numeric array element": (lambda: E.BasicArrayRef(E.BasicVar("X"), E.BasicExpressionList([OpqExp("i")])), False, "arr_X(%s)" % opaque.mark("i", 0)),
            "string array element": (lambda: E.BasicArrayRef(E.BasicVar("X$", True), E.BasicExpressionList([OpqExp("i")]), is_str_expr=True), True, "arr_X$(%s)" % opaque.mark("i", 0)),
        }
        for name, (mk, is_str, ttext) in targets.items():
            for let in (False, True):
                opaque.reset()
                f = functional("f", is_str)
                A = E.BasicAssignment(mk(), f, let_kw=let)
                A.visit(V.BasicFunctionalExpressionPatcherVisitor())
                text = norm(A.basic09_text(0))
                want = "run ecb_f(%s, %s)" % (opaque.mark("f_a1", 0), ttext)
                res.append(ob("patch/direct delivery into a %s%s" % (name, ", LET" if let else ""), text == want, want, text))
        return res
    return guarded("patch/direct delivery", step7)


def patcher_steps():
    out = []
    P = V.BasicFunctionalExpressionPatcherVisitor

    # 1. an un-named functional expression seen after visit_statement(S) is hoisted into S, with a fresh temporary
    def step1():
        res = []
        for is_str in (False, True):
            S = OpqStmt("S")
            p = P()
            p.visit_statement(S)
            f = functional("f", is_str)
            p.visit_exp(f)
            name = f.var.name() if f.var is not None else None
            res.append(ob("patch/hoist-into-current-statement,str=%d" % is_str,
                          f.var is not None and S.pre_assignment_statements == [f.statement] and name == ("tmp_1$" if is_str else "tmp_1")
                          and f.var.is_str_expr == is_str,
                          dict(pre=["call of f"], var="tmp_1$" if is_str else "tmp_1"),
                          dict(pre_len=len(S.pre_assignment_statements), var=name),
                          "visit_exp on an un-named functional expression: named with a fresh temporary of its kind, call appended to the owner"))
            txt = f.statement.basic09_text(0) if f.statement is not None else None
            exp = "run ecb_f(" + str(opaque.mark("f_a1", 0)) + ", " + ("tmp_1$" if is_str else "tmp_1") + ")"
            res.append(ob("patch/call-text,str=%d" % is_str, txt == exp, exp, txt, "the hoisted call passes the source operands, then the result variable"))
        return res
    out += guarded("patch/hoist-into-current-statement", step1)

    # 2. order and distinctness: calls are appended in visit order; temporaries are pairwise distinct
    def step2():
        S = OpqStmt("S")
        p = P()
        p.visit_statement(S)
        fs = [functional("f1"), functional("g", True), functional("f2"), functional("h", True), functional("f3")]
        for f in fs:
            p.visit_exp(f)
        names = [f.var.name() for f in fs]
        return [ob("patch/order-and-fresh-names", S.pre_assignment_statements == [f.statement for f in fs] and len(set(names)) == 5
                   and names == ["tmp_1", "tmp_1$", "tmp_2", "tmp_2$", "tmp_3"],
                   ["tmp_1", "tmp_1$", "tmp_2", "tmp_2$", "tmp_3"], names, "five hoists into one statement")]
    out += guarded("patch/order-and-fresh-names", step2)

    # 2b. two textually identical calls are two calls (device state may change between them): each gets its own temporary
    def step2b():
        S = OpqStmt("S")
        p = P()
        p.visit_statement(S)

        def same():
            return E.BasicFunctionalExpression("run ecb_button", E.BasicExpressionList([E.BasicLiteral(0.0)]))
        f1, f2, f3 = same(), same(), E.BasicFunctionalExpression("run ecb_int", E.BasicExpressionList([E.BasicFunctionCall("RND", E.BasicExpressionList([E.BasicLiteral(0.0)]))]))
        f4 = E.BasicFunctionalExpression("run ecb_int", E.BasicExpressionList([E.BasicFunctionCall("RND", E.BasicExpressionList([E.BasicLiteral(0.0)]))]))
        for f in (f1, f2, f3, f4):
            p.visit_exp(f)
        names = [f.var.name() for f in (f1, f2, f3, f4)]
        return [ob("patch/identical calls stay separate", len(set(names)) == 4 and len(S.pre_assignment_statements) == 4, "4 temporaries, 4 calls", dict(temps=names, calls=len(S.pre_assignment_statements)))]
    out += guarded("patch/identical calls stay separate", step2b)

    # 3. owner = the most recently visited statement
    def step3():
        S1, S2 = OpqStmt("S1"), OpqStmt("S2")
        p = P()
        p.visit_statement(S1)
        f1 = functional("f1")
        p.visit_exp(f1)
        p.visit_statement(S2)
        f2 = functional("f2")
        p.visit_exp(f2)
        return [ob("patch/owner-is-latest-statement", S1.pre_assignment_statements == [f1.statement] and S2.pre_assignment_statements == [f2.statement],
                   "f1 in S1, f2 in S2", [len(S1.pre_assignment_statements), len(S2.pre_assignment_statements)])]
    out += guarded("patch/owner-is-latest-statement", step3)

    # 4. frame: named functional expressions and other expressions are left alone
    def step4():
        S = OpqStmt("S")
        p = P()
        p.visit_statement(S)
        f = functional("f")
        v = OpqExp("v")
        f.set_var(v)
        st = f.statement
        p.visit_exp(f)
        p.visit_exp(OpqExp("e"))
        return [ob("patch/frame", S.pre_assignment_statements == [] and f.var is v and f.statement is st, "no change", [len(S.pre_assignment_statements)])]
    out += guarded("patch/frame", step4)

    # 5. assignment with a functional right-hand side: the target is the result variable, nothing is hoisted
    def step5():
        v = OpqExp("v")
        f = functional("f")
        A = E.BasicAssignment(v, f)
        p = P()
        p.visit_statement(A)
        p.visit_exp(f)
        return [ob("patch/assignment-target-is-result", f.var is v and A.pre_assignment_statements == [], "result variable is the assignment target", repr(f.var))]
    out += guarded("patch/assignment-target-is-result", step5)

    # 6. the whole pass on an assignment whose right-hand side wraps a convertible function in any way: the call is emitted
    #    exactly once, with its operand, and the assigned expression reads the call's result variable
    def step6():
        res = []
        wraps = {
            "bare": (lambda f: f, None),
            "paren": (lambda f: E.BasicParenExp(f), "(tmp_1)"),
            "double-paren": (lambda f: E.BasicParenExp(E.BasicParenExp(f)), "((tmp_1))"),
            "unary-minus": (lambda f: E.BasicOpExp("-", f), "- tmp_1"),
            "sum-left": (lambda f: E.BasicBinaryExp(f, "+", OpqExp("e")), "tmp_1 + " + str(opaque.mark("e", 0))),
            "sum-right": (lambda f: E.BasicBinaryExp(OpqExp("e"), "+", f), str(opaque.mark("e", 0)) + " + tmp_1"),
            "paren-sum": (lambda f: E.BasicBinaryExp(E.BasicParenExp(f), "*", OpqExp("e")), "(tmp_1) * " + str(opaque.mark("e", 0))),
        }
        for name, (wrap, rhs) in wraps.items():
            opaque.reset()
            v = E.BasicVar("X")
            f = functional("f")
            A = E.BasicAssignment(v, wrap(f))
            A.visit(V.BasicFunctionalExpressionPatcherVisitor())
            text = norm(A.basic09_text(0))
            call = "run ecb_f(%s, %s)" % (opaque.mark("f_a1", 0), "X" if rhs is None else "tmp_1")
            want = call if rhs is None else call + " \\ X := " + rhs
            res.append(ob("patch/assignment of a wrapped call/%s" % name, text == want, want, text))
        return res
    out += guarded("patch/assignment of a wrapped call", step6)

    out += direct_delivery()
    out += call_order_through_convert()
    out += read_targets_through_filter()
    from tx.p_c09 import temporaries_are_generated_names
    out += share("destinations/", temporaries_are_generated_names())
    # whether a print item goes through the number formatter (one more call, made right after the item's own) follows from its kind
    from tx.p_c14 import rule_kinds
    out += share("kind/", rule_kinds())
    return out


def temp_freshness():
    """get_new_temp: with _temps = {tmp_1..tmp_k} the next name is tmp_{k+1} (new).  Checked for k < 300 per kind
    (bounded stand-in for the induction on k; the code is a single f-string of len()+1)."""
    out = []

    def run():
        S = OpqStmt("S")
        seen = set()
        ok = True
        for k in range(pick(300, 3000)):
            for is_str in (False, True):
                v = S.get_new_temp(is_str)
                nm = v.name()
                if nm in seen or nm != ("tmp_%d$" % (k + 1) if is_str else "tmp_%d" % (k + 1)) or v.is_str_expr != is_str:
                    ok = False
                seen.add(nm)
        return [ob("temps/fresh-for-k<300", ok, "tmp_1.. distinct", "ok" if ok else "collision", bounded="k < %d" % pick(300, 3000))]
    return guarded("temps/fresh-for-k<300", run)


def replacement_protocol():
    """BasicStatements.visit: after visiting a PRINT / READ / INPUT statement, it is replaced in place by what the
    visitor's visit_*_statement hook returns, and later passes traverse the replacement."""
    out = []

    def run():
        res = []
        for cls, hook, mk in [("BasicPrintStatement", "visit_print_statement", lambda: E.BasicPrintStatement(OpqExp("args"))),
                              ("BasicReadStatement", "visit_read_statement", lambda: E.BasicReadStatement([OpqExp("r")])),
                              ("BasicInputStatement", "visit_input_statement", lambda: E.BasicInputStatement(None, [OpqExp("r")]))]:
            for multi in (True, False):
                st = mk()
                repl = OpqStmt("REPL")
                S = E.BasicStatements([OpqStmt("s1"), st, OpqStmt("s3")], multi_line=multi)
                opaque.reset()
                S.visit(RecordingVisitor({id(st): "st"}, replace={hook: repl}))
                ok = S.statements[1] is repl and S.statements[0]._opaque_tag == "s1" and S.statements[2]._opaque_tag == "s3"
                hooks = [e for e in TRACE if e[0] == "hook" and e[1] == hook[6:]]
                res.append(ob("statements/replace-%s,multi_line=%d" % (cls, multi), ok and len(hooks) == 1, "statement replaced by the hook's result, once (in one-line groups too: PRINT@ is one)", dict(replaced=ok, hook_calls=len(hooks))))
        return res
    return guarded("statements/replace", run)


def print_patcher():
    """Numbers printed by PRINT go through the formatter: every numeric expression item is wrapped into a string-kinded
    functional expression `run ecb_str(item)`; string items and separators are untouched; order is preserved."""
    def run():
        a = [OpqExp("n1", False), E.BasicPrintControl(";"), OpqExp("s1", True), OpqExp("n2", False)]
        st = E.BasicPrintStatement(E.BasicPrintArgs(list(a)))
        r = V.BasicPrintStatementPatcherVisitor().visit_print_statement(st)
        args = r.print_args.args
        ok = (isinstance(r, E.BasicPrintStatement) and len(args) == 4
              and isinstance(args[0], E.BasicFunctionalExpression) and args[0].is_str_expr and args[0]._args.exp_list == [a[0]] and args[0]._func == "run ecb_str"
              and args[1] is a[1] and args[2] is a[2]
              and isinstance(args[3], E.BasicFunctionalExpression) and args[3]._args.exp_list == [a[3]])
        return [ob("print/numeric-items-through-ecb_str", ok, "[ecb_str(n1), ;, s1, ecb_str(n2)]", [type(x).__name__ for x in args])]
    return guarded("print/numeric-items-through-ecb_str", run)


def ownership_order():
    """In every visit contract, an expression part is never visited after a statement-valued part of the same owner
    without an intervening visit_statement hook (else its hoists would land in the nested statement)."""
    from tx import cases
    bad = []
    for c in cases.CASES:
        if not c.trace:
            continue
        seen_stmt_child = False
        for ev in c.trace:
            if ev[0] == "hook" and ev[1] == "statement":
                seen_stmt_child = False
            elif ev[0] == "child":
                is_stmt = ev[1].startswith("s") or ev[1].startswith("p")
                if is_stmt:
                    seen_stmt_child = True
                elif seen_stmt_child:
                    bad.append("%s/%s" % (c.cls, c.label))
    return [ob("contracts/expression-parts-before-statement-parts", not bad, [], bad, "structural obligation on the V contracts themselves")]


def temp_sequences():
    """get_new_temp for every order of requests: the k-th temporary of a kind is tmp_k (tmp_k$), whatever was requested
    in between - two hoisted calls of one statement never share a name"""
    import itertools

    def run():
        bad = []
        n = 0
        for length in range(1, 9):
            for kinds in itertools.product((False, True), repeat=length):
                S = OpqStmt("S")
                cnt = {False: 0, True: 0}
                names = []
                for is_str in kinds:
                    v = S.get_new_temp(is_str)
                    cnt[is_str] += 1
                    names.append(v.name())
                    want = "tmp_%d%s" % (cnt[is_str], "$" if is_str else "")
                    if v.name() != want or v.is_str_expr != is_str:
                        bad.append(dict(requests=["str" if k else "num" for k in kinds], got=names[:], expected_last=want))
                        break
                n += 1
                if len(set(names)) != len(names) and not bad:
                    bad.append(dict(requests=["str" if k else "num" for k in kinds], got=names, problem="a name handed out twice"))
        return [ob("temps/every order of numeric and string requests up to 8", not bad and n == 510, "k-th of a kind is tmp_k / tmp_k$, all distinct", bad[:3] or "%d sequences" % n)]
    return guarded("temps/sequences", run)


def statement_independence():
    """through the real convert(): the translation of `F:G` on one line is the translation of F followed by the translation of G,
    for every ordered pair of statement forms (hoisted calls stay with their own statement, temporaries restart per statement,
    nothing leaks from one statement into its neighbour).  Forms whose meaning spans statements (IF..THEN rest-of-line, FOR/NEXT
    pairing, DATA/READ, DIM, comments) are left to their own obligations."""
    import itertools
    from coco.b09.compiler import convert
    from tx.p_c08 import FORMS
    from tx.tier import pick

    def run():
        THOROUGH_ALL = pick(False, True)
        forms = sorted({f.replace("{_}", "").replace("{+}", " ") for f in FORMS})
        forms = [f for f in forms if not f.startswith(("IF", "ON ERR", "ON BRK", "DATA", "READ", "NEXT", "FOR", "REM", "'", "DIM", "CLEAR")) and "GOTO" not in f
                 and "GOSUB" not in f and "THEN" not in f]
        # ... and statement forms with a convertible function in an operand position (something is hoisted in front of them)
        import re as _re
        from tx.p_c04 import ROWS
        hoisting = []
        for t in sorted({t for _, t, _, _ in ROWS if "{e}" in t}) + ["A1={e}+1", "A1({e})=2", "PRINT {e}", "POKE {e},{e}", "ON {e} GOSUB 10", "A1$=STR$({e})+\"x\"", "WIDTH {e}"]:
            k = [0]

            def sub(m):
                k[0] += 1
                return "INT(Q9)" if k[0] == 1 else ("B%d" % k[0] if m.group(1) == "e" else "C%d$" % k[0])
            hoisting.append(_re.sub(r"\{(e|s)\}", sub, t))
        plain = forms[:pick(25, len(forms))]
        forms = plain + hoisting

        def body(src):
            try:
                t = convert("10 %s\n" % src, add_standard_prefix=False, initialize_vars=False, add_suffix=False)
            except Exception:  # noqa  (refused forms are C15's business)
                return None
            lines = t.rstrip("\n").split("\n")
            k = next((i for i, l in enumerate(lines) if l.startswith("10 ")), None)
            if k is None:
                return None
            b = lines[k:]
            b[0] = b[0][3:]
            return b
        single = {f: body(f) for f in forms}
        bad, n = [], 0
        pairs = list(itertools.product(forms, forms)) if THOROUGH_ALL else [(f, g) for f, g in itertools.product(forms, forms) if f in plain or g in plain]
        for f, g in pairs:
            n += 1
            r = body(f + ":" + g)
            if single[f] is None or single[g] is None:
                if r is not None:
                    bad.append(dict(source="%s:%s" % (f, g), problem="converted although %r alone is not" % (f if single[f] is None else g)))
                continue
            if r != single[f] + single[g]:
                bad.append(dict(source="%s:%s" % (f, g), got=r, expected=single[f] + single[g]))
        # the same across lines: two lines translate to the two translations (labels aside)
        def body2(f, g):
            try:
                t = convert("10 %s\n20 %s\n" % (f, g), add_standard_prefix=False, initialize_vars=False, add_suffix=False)
            except Exception:  # noqa
                return None
            lines = t.rstrip("\n").split("\n")
            k = next((i for i, l in enumerate(lines) if l.startswith("10 ")), None)
            j = next((i for i, l in enumerate(lines) if l.startswith("20 ")), None)
            if k is None or j is None:
                return None
            a, b = lines[k:j], lines[j:]
            a[0], b[0] = a[0][3:], b[0][3:]
            return a, b
        bad2, n2 = [], 0
        for f, g in pairs:
            if single[f] is None or single[g] is None:
                continue
            n2 += 1
            r = body2(f, g)
            if r != (single[f], single[g]):
                bad2.append(dict(lines=[f, g], got=r, expected=(single[f], single[g])))
        extra = [ob("independence/two lines translate to their two translations", not bad2 and n2 > 1000, "for all %d ordered pairs" % n2, bad2[:3] or "%d pairs" % n2,
                    bounded="%d ordered pairs of lines" % n2)]
        return extra + [ob("independence/translation of F:G = translation of F, then of G", not bad and n > 1000, "for all %d ordered pairs" % n, bad[:3] or "%d pairs" % n,
                   bounded="%d ordered pairs over %d statement forms (%d of them with a hoisted call)" % (n, len(forms), len(hoisting)))]
    return guarded("independence", run)


def tree_shared_with_c04():
    from tx.p_c04 import parser_builds_a_tree
    return parser_builds_a_tree()


def calls_per_occurrence():
    """through the real rules: a convertible function placed in any one operand position of any statement form is emitted as
    exactly one runtime call (C05: "exactly once ... no call or operand is lost") - device statements of the C04 table, the
    special-address POKEs, assignments, PRINT, FOR bounds, ON selectors"""
    import re
    from coco.b09.compiler import convert
    from tx.p_c04 import ROWS

    def run():
        res = []
        forms = sorted({t for _, t, _, _ in ROWS if "{e}" in t or "{s}" in t} | {
            "POKE 65496,{e}", "POKE 65497,{e}", "POKE &HFFD8,{e}", "POKE &HFFD9,{e}", "POKE {e},{e}", "A1={e}", "A1({e})={e}", "PRINT {e};{e}", "PRINT@{e},{e}",
            "FOR I1={e} TO {e} STEP {e}", "ON {e} GOTO 10,10", "ON {e} GOSUB 10", "A1$={s}", "A1$={s}+{s}", "IF {e}=1 THEN A1=2", "LET A1={e}+{e}", "WIDTH {e}",
            "A1=ABS({e})", "A1=LEN({s})", "A1$=LEFT$({s},{e})", "A1$=MID$({s},{e},{e})", "A1=INSTR({e},{s},{s})", "A1$=STRING$({e},{s})", "A1=VARPTR(B2({e}))"})
        for tmpl in forms:
            kinds = re.findall(r"\{(e|s)\}", tmpl)
            bad = []
            for j, kind in enumerate(kinds):
                k = [0]

                def sub(m, j=j):
                    idx = k[0]
                    k[0] += 1
                    if idx == j:
                        return "INT(Q9)" if m.group(1) == "e" else "STR$(Q9)"
                    return ("B%d" % (idx + 2)) if m.group(1) == "e" else ("C%d$" % (idx + 2))
                src = re.sub(r"\{(e|s)\}", sub, tmpl)
                try:
                    text = convert("10 %s\n" % src, add_standard_prefix=False)
                except Exception as e:  # noqa
                    continue        # refused forms are C15's business
                n = len(re.findall(r"(?i)\brun ecb_(?:int|str)\(Q9,", text))
                if n != 1:
                    bad.append(dict(source=src, calls=n, text=text.strip()[:160]))
            res.append(ob("calls/%s" % tmpl.replace("{e}", "e").replace("{s}", "s"), not bad, "one call per occurrence, in every operand position", bad[:3] or "%d positions" % len(kinds)))
        return res
    return guarded("calls", run)


def obligations():
    return patcher_steps() + temp_freshness() + temp_sequences() + calls_per_occurrence() + tree_shared_with_c04() + statement_independence() + replacement_protocol() + print_patcher() + ownership_order()
