"""C20: the bundled string helpers compute the Color BASIC function they stand for.
No BASIC09 interpreter exists in the sandbox and the helpers are 5-10 line procedures over strings: they are executed
by a concrete evaluator of the BASIC09 subset they use (tx/b09mini.py, semantics stated there) on the real library
text, exhaustively over a small domain - a *bounded* check, labelled as such, never counted as proved - and the call
sites that bind their parameters are checked against the PARAM order (shared with C04/C14)."""
import itertools
import re

from tx.tier import THOROUGH, pick
from tx import b09mini, ecbsig, f2, opaque
from tx.opaque import OpqExp
from tx.p_c05 import ob, guarded
from tx.run_cases import norm


def instr_spec(index, s, p):
    """Color BASIC: 0 if start > LEN(target) or the target is empty or there is no occurrence at or after start;
    the start position itself for an empty search string; else the first position >= start where the pattern occurs."""
    if index < 1:
        return None   # ?FC ERROR in Color BASIC: outside the function's domain
    if s == "" or index > len(s):
        return 0
    if p == "":
        return index
    k = s.find(p, index - 1)
    return k + 1 if k >= 0 else 0


def strings(alpha, maxlen):
    for n in range(maxlen + 1):
        for t in itertools.product(alpha, repeat=n):
            yield "".join(t)


def instr():
    def run():
        proc = b09mini.load(ecbsig.library_text(), "ecb_instr")
        bad, n = [], 0
        alpha, ms, mp = pick(("AB", 5, 3), ("ABC", 6, 4))
        for s in strings(alpha, ms):
            for p in strings(alpha, mp):
                for index in range(1, ms + 3):
                    want = instr_spec(index, s, p)
                    n += 1
                    try:
                        after = proc.run(float(index), s, p, 99.0)   # the result variable holds garbage on entry
                        got = after[3]
                        # frame: parameters are passed by reference - the helper writes its result parameter only
                        if after[:3] != [float(index), s, p]:
                            got = "arguments changed to %r" % (after[:3],)
                    except b09mini.B09Error as e:
                        got = "ERROR %d" % e.code
                    if got != want:
                        bad.append(dict(index=index, s=s, pattern=p, expected=want, got=got))
        return [ob("instr/all subjects to length 5, patterns to length 3 over {A,B}, start 1..7", not bad, "first position >= start, 0 if none", bad[:4] or "%d cases" % n,
                   bounded="subjects <= %d, patterns <= %d characters over %r, start index 1..%d; result variable pre-set to garbage" % (ms, mp, alpha, ms + 2))]
    return guarded("instr", run)


def string_fn():
    out = []
    for cap in (32, 255):
        def run(cap=cap):
            proc = b09mini.load(ecbsig.library_text(), "ecb_string", str_capacity=cap)
            bad, n = [], 0
            for s in ("", "A", "AB", "BA", "*xyz"):
                for count in list(range(-2, 256)):
                    n += 1
                    try:
                        got = proc.run(float(count), s, "garbage")[2]
                    except b09mini.B09Error as e:
                        got = "ERROR %d" % e.code
                    want = "ERROR 52" if (count < 0 or s == "") else s[0] * count
                    if got != want:
                        bad.append(dict(count=count, s=s, expected=want if len(str(want)) < 40 else "%d x %r" % (count, s[0]), got=got if len(str(got)) < 40 else "%d characters" % len(got)))
            return [ob("string/counts -2..255, declared capacity %d" % cap, not bad, "first character repeated count times; error for count < 0 or empty string", bad[:3] or "%d cases" % n,
                       bounded="counts -2..255, five strings; string<<>> capacity %d" % cap)]
        out += guarded("string/%d" % cap, run)
    return out


def read_filter():
    def run():
        proc = b09mini.load(ecbsig.library_text(), "ecb_read_filter")
        bad = []
        items = ["", "0.0", "1.0", "-7.0", "2.5", "3.14159265", "1234.5678", "1e-07", "255.0", "0.0001234567"]
        for s in items:
            got = proc.run(s, 99.0)[1]
            want = 0.0 if s == "" else float(s)
            if got != want:
                bad.append((s, got, want))
        return [ob("read-filter/0 for an empty item, the item's value otherwise", not bad, "0.0 / VAL(item)", bad or "%d spellings" % len(items), bounded="ten numeral spellings of the kind the DATA patcher produces")]
    return guarded("read-filter", run)


def call_sites():
    """the Python call sites bind source operands to the parameters by name (positions from the real PARAM lines)"""
    def run():
        res = []
        sig = ecbsig.parse()
        for rule, src, proc, order in (("instr_expr", "INSTR(A1,B2$,C3$)", "ecb_instr", ["index", "str0", "str1", "outindex"]),
                                       ("string_expr", "STRING$(A1,B2$)", "ecb_string", ["count", "str", "strout"])):
            opaque.reset()
            fx, _ = f2.build(rule, src)
            fx.set_var(OpqExp("R", fx.is_str_expr))
            got = norm(fx.statement.basic09_text(0))
            names = [p for p, _, _ in sig[proc]["params"]]
            exp = "run %s(%s)" % (proc, ", ".join(str(opaque.mark(("E%d" % (order.index(n) + 1)) if n != order[-1] else "R", 0)) for n in names))
            res.append(ob("call-site/%s" % proc, names == order and got == exp, exp, got))
        from coco.b09 import elements as E, visitors as V
        p = V.BasicReadStatementPatcherVisitor()
        r = E.BasicReadStatement([OpqExp("n1", False)])
        text = norm(p.visit_read_statement(r).basic09_text(0))
        names = [x for x, _, _ in sig["ecb_read_filter"]["params"]]
        res.append(ob("call-site/ecb_read_filter", names == ["inval", "outval"] and text.endswith("RUN ecb_read_filter(tmp_1$, %s)" % opaque.mark("n1", 0)), "RUN ecb_read_filter(<string temporary>, <numeric target>)", text))
        return res
    return guarded("call-site", run)


def obligations():
    return instr() + string_fn() + read_filter() + call_sites()


def filter_chain():
    """reading a numeric DATA item through the empty-item protocol gives the item's numeric value: the string the real
    patcher writes for the item, passed through the real ecb_read_filter text, evaluates to the item"""
    def run():
        from coco.b09 import elements as E, visitors as V
        proc = b09mini.load(ecbsig.library_text(), "ecb_read_filter")
        items = [3.14159265, .0001234567, 2.5, -7.0, 1.0, 1234.5678, 1e-07, 0.0, 65535.0, 0.1]
        hexes = ["FFFF", "8000", "7FFF", "ABCD", "0", "FF", "10000", "FFFFFF"]
        d = E.BasicDataStatement(E.BasicExpressionList([E.BasicLiteral(x) for x in items] + [E.HexLiteral(h) for h in hexes] + [E.BasicLiteral("")], parens=False))
        V.BasicReadStatementPatcherVisitor().visit_data_statement(d)
        bad = []
        items = items + [float(int(h, 16)) for h in hexes]      # Color BASIC &H constants are unsigned
        for x, lit in zip(items + [None], d.exp_list.exp_list):
            s = lit.literal
            got = proc.run(s, 99.0)[1] if isinstance(s, str) else "not a string: %r" % (s,)
            want = 0.0 if x is None else x
            if got != want:
                bad.append(dict(item=x, string=s, read=got))
        # ... and from source text: the numerals of a DATA line with an empty item, through the real parser and patcher
        from coco.b09.compiler import convert
        src_items = [("", 0.0), ("1E-2", 0.01), ("2.5E+1", 25.0), ("-4E-1", -0.4), (".5", 0.5), ("-.25E1", -2.5), ("1 E 2", 100.0), ("&HFF", 255.0), ("12", 12.0), ("- 3", -3.0)]
        try:
            text = convert("10 DATA %s\n20 READ %s\n" % (",".join(t for t, _ in src_items), ",".join("V%d" % k for k in range(len(src_items)))), add_standard_prefix=False)
            lits = re.findall(r'"([^"]*)"', next(l for l in text.split("\n") if "DATA" in l))
            if len(lits) != len(src_items):
                bad.append(dict(source="DATA line", emitted=lits))
            for (t, want), litv in zip(src_items, lits):
                got = proc.run(litv, 99.0)[1]
                if abs(got - want) > 1e-9:
                    bad.append(dict(item=t, string=litv, read=got, expected=want))
        except Exception as e:  # noqa
            bad.append(dict(source="DATA line", error="%s: %s" % (type(e).__name__, str(e)[:100])))
        return [ob("read-filter/patched DATA item reads back as its value", not bad, "value preserved through str -> VAL", bad or "%d items" % len(items), bounded="ten numeric items, eight hex items and one empty item")]
    return guarded("read-filter/chain", run)


_c20_base = obligations


def obligations():  # noqa: F811
    # the filter only stands for the reading of empty items if the translator engages it: flag accumulation over all DATA
    # statements and the READ/DATA patching protocol (shared with C03)
    from tx.p_c03 import empty_item_protocol
    # a helper computes its function only if it is there: every helper a statement calls is bundled with everything it calls, however many
    # calls stand on one line (shared with C13); READ targets are stored in READ order (shared with C05)
    from tx.p_c05 import share, read_targets_through_filter
    from tx import p_c13
    return _c20_base() + filter_chain() + empty_item_protocol() + share("bundled/", p_c13.small_graphs() + p_c13.bundle_closed_through_convert()) + share("read/", read_targets_through_filter()) + share("order/", __import__("tx.p_c05", fromlist=["x"]).call_order_through_convert())
