"""C09: the identifier the tool emits for a source name is its first two characters plus the type suffix (Color
BASIC's rule), arrays get the `arr_` prefix, and generated identifiers cannot collide with user names."""
import ast
import glob
import itertools
import os
import re

from parsimonious.exceptions import ParseError

import coco
from coco.b09 import elements as E, visitors as V
from coco.b09.grammar import grammar
from coco.b09.parser import BasicVisitor
from tx.tier import THOROUGH, pick
from tx import f2
from tx.opaque import OpqExp
from tx.p_c05 import ob, guarded

B09DIR = os.path.join(os.path.dirname(coco.__file__), "b09")
ALPH = "ABZ019"      # representatives: letters (incl. extremes) and digits; the code only slices, it never inspects characters


def names(maxlen):
    for n in range(1, maxlen + 1):
        full = pick(2, 3)
        for tail in itertools.product("ABCDEFGHIJKLMNOPQRSTUVWXYZ0123456789" if n <= full else ALPH, repeat=n - 1):
            for head in ("ABCDEFGHIJKLMNOPQRSTUVWXYZ" if n <= full else "AQZ"):
                yield head + "".join(tail)


def truncation():
    """for every name the real var / str_var regex accepts: emitted identifier = first two characters (+ $)"""
    def run():
        bv = BasicVisitor()
        bad, n = [], 0
        for nm in names(5):
            for suffix, rule in (("", "var"), ("$", "str_var")):
                src = nm + suffix
                try:
                    node = grammar[rule].parse(src)
                except ParseError:
                    continue          # rejected by the grammar (keyword prefix ...): no identifier is emitted
                n += 1
                got = bv.visit(node)
                exp = nm[:2] + suffix
                if not isinstance(got, E.BasicVar) or got.name() != exp or got.is_str_expr != (suffix == "$"):
                    bad.append((src, getattr(got, "name", lambda: got)()))
        return [ob("truncation/all accepted names up to 5 characters", not bad and n > 1000, "name[:2] + suffix", bad[:5] or "%d names" % n,
                   bounded="all 1-%d character names, representative alphabets for longer ones (to 5), both suffixes" % pick(2, 3))]
    return guarded("truncation", run)


def kinds_disjoint():
    def run():
        res = []
        for nm, is_str in (("A", False), ("AB", False), ("A1", False), ("A$", True), ("AB$", True), ("A1$", True)):
            v = E.BasicVar(nm, is_str_expr=is_str)
            a = E.BasicArrayRef(v, E.BasicExpressionList([OpqExp("i")]), is_str_expr=is_str)
            res.append(ob("array-prefix/%s" % nm, a.var.name() == "arr_" + nm and a.var.is_str_expr == is_str, "arr_" + nm, a.var.name()))
        # implicit arrays are declared under the identifier they are referenced by
        for nm in ("A", "AB", "A1", "A$", "AB$", "A1$"):
            d = V.DeclareImplicitArraysVisitor(dimmed_var_names=set())
            ref = E.BasicArrayRef(E.BasicVar(nm, is_str_expr=nm.endswith("$")), E.BasicExpressionList([OpqExp("i")]), is_str_expr=nm.endswith("$"))
            d.visit_array_ref(ref)
            texts = [s.basic09_text(0) for s in d.dim_statements]
            res.append(ob("implicit-array-identifier/%s" % nm, texts == ["DIM arr_%s(11)" % nm], ["DIM arr_%s(11)" % nm], texts))
        # source DIM of an array keeps the identifier
        for nm in ("AB", "A1$"):
            ref = E.BasicArrayRef(E.BasicVar(nm, is_str_expr=nm.endswith("$")), E.BasicExpressionList([E.BasicLiteral(5)]), is_str_expr=nm.endswith("$"))
            st = E.BasicDimStatement([ref])
            res.append(ob("dim-identifier/%s" % nm, st.basic09_text(0) == "DIM arr_%s(6)" % nm, "DIM arr_%s(6)" % nm, st.basic09_text(0)))
        return res
    return guarded("kinds", run)


def generated_identifiers():
    """identifiers the tool writes itself: each has at least three characters before any suffix or contains `_` / `.`,
    so it differs from every user identifier (at most two characters + optional $, or arr_ + that)"""
    def run():
        gen = {}
        for path in sorted(glob.glob(os.path.join(B09DIR, "*.py"))):
            tree = ast.parse(open(path).read())
            for node in ast.walk(tree):
                if isinstance(node, ast.Call) and getattr(node.func, "id", getattr(node.func, "attr", None)) == "BasicVar" and node.args:
                    a = node.args[0]
                    if isinstance(a, ast.Constant) and isinstance(a.value, str):
                        gen.setdefault(a.value, []).append("%s:%d" % (os.path.basename(path), node.lineno))
                    elif isinstance(a, ast.JoinedStr):
                        lit = "".join(v.value if isinstance(v, ast.Constant) else "#" for v in a.values)
                        gen.setdefault(lit, []).append("%s:%d" % (os.path.basename(path), node.lineno))
        user = re.compile(r"^(arr_)?[A-Z][A-Z0-9]?\$?$")
        bad = {g: s for g, s in gen.items() if user.match(g.replace("#", "1")) and not g.startswith("arr_#")}
        # ERNO is the one upper-case generated name: 4 characters, cannot be a (2-character) user identifier
        return [ob("generated-identifiers-disjoint", not bad and len(gen) >= 8, "no generated identifier has the shape of a user identifier", bad or sorted(gen))]
    return guarded("generated", run)


def variable_positions():
    """every rule that can hold a user variable reaches it through var / str_var: the identifier-capable terminals of
    the real grammar are exactly the known ones"""
    def run():
        from parsimonious import expressions as PE
        ident_like = []
        for name, rule in grammar.items():
            if isinstance(rule, PE.Regex):
                pat = rule.re.pattern
                if re.search(r"\[A-Z\]|\[A-Z0-9\]|\.\*|\[\^", pat):
                    ident_like.append(name)
        known = {"var", "str_var", "comment_text", "data_str_literal", "str_literal", "partial_str_lit"}
        extra = sorted(set(ident_like) - known)
        return [ob("identifier-capable-terminals", not extra and {"var", "str_var"} <= set(ident_like), sorted(known), sorted(ident_like),
                   "a new terminal that can match identifier-like text would bypass the naming rule")]
    return guarded("positions", run)


def positions_through_rules():
    """assignment target, expression, FOR/NEXT, READ/INPUT target, DIM, VARPTR, subscripts: the same source name gives
    the same identifier in every position"""
    def run():
        res = []
        forms = {
            "num_assign": ("ABC=1", "AB"), "str_assign": ('ABC$="X"', "AB$"), "for_statement": ("FOR ABC=1 TO 2", "AB"),
            "next_statement": ("NEXT ABC", "AB"), "read_statement": ("READ ABC,ABC$", "AB"), "input_statement": ("INPUT ABC$", "AB$"),
            "dim_statement": ("DIM ABC(3)", "arr_AB"), "varptr_expr": ("VARPTR(ABC)", "AB"), "arr_assign": ("ABC(1)=2", "arr_AB"),
        }
        for rule, (src, ident) in forms.items():
            st, _ = f2.build(rule, src, operand_rules={})
            text = st.basic09_text(1)
            res.append(ob("position/%s" % rule, re.search(r"(?<![A-Za-z_0-9])%s(?![A-Za-z0-9])" % re.escape(ident), text) is not None and "ABC" not in text, ident, text))
        # positions where a numeric alternative is tried before the string one (print items, comparisons, function arguments):
        # the identifiers in the emitted text are exactly those of the source names
        more = [
            ("statement", "PRINT ABC$", ["AB$"]), ("statement", "PRINT ABC$;ABC", ["AB$", "AB"]), ("statement", "PRINT ABC$(1)", ["arr_AB$"]),
            ("statement", "PRINT@1,ABC$", ["AB$"]), ("statement", "PRINT ABC,ABC$,XYZ$", ["AB", "AB$", "XY$"]), ("statement", "PRINT NAME$", ["NA$"]),
            ("statement", 'IF ABC$="X" THEN 10', ["AB$"]), ("statement", "XYZ=LEN(ABC$)", ["XY", "AB$"]), ("statement", "XYZ$=ABC$+LEFT$(ABC$,ABC)", ["XY$", "AB$", "AB$", "AB"]),
            ("statement", "XYZ=ABC(ABC)+ABC", ["XY", "arr_AB", "AB", "AB"]), ("statement", "INPUT ABC$,ABC,ABC$(1)", ["AB$", "AB", "arr_AB$"]),
            ("statement", "READ ABC$,ABC(2)", ["AB$", "arr_AB"]), ("last_statement", 'ABC$(3)="ELEMENT', ["arr_AB$"]), ("last_statement", 'LET ABC$(1,2)="X Y', ["arr_AB$"]),
            ("last_statement", 'ABC$="ELEMENT', ["AB$"]), ("statement", 'ABC$(3)="E"', ["arr_AB$"]), ("statement", "LINE INPUT ABC$", ["AB$"]), ("statement", "HPRINT(1,2),ABC$", ["AB$"]),
            # an element is an element of the array whatever its subscript is - 0 included, in VARPTR too
            ("statement", "XYZ=VARPTR(ABC(0))", ["XY", "arr_AB"]), ("statement", "XYZ=VARPTR(ABC$(0,0))", ["XY", "arr_AB$"]), ("statement", "XYZ=VARPTR(ABC(1))", ["XY", "arr_AB"]),
            ("statement", "XYZ=VARPTR(ABC(Q))", ["XY", "arr_AB", "Q"]), ("statement", "XYZ=VARPTR(ABC$)", ["XY", "AB$"]), ("statement", "XYZ=ABC(0)+ABC", ["XY", "arr_AB", "AB"]),
            ("statement", "ABC(0)=ABC", ["arr_AB", "AB"]), ("statement", "PRINT ABC$(0);ABC$", ["arr_AB$", "AB$"]), ("statement", "XYZ=VARPTR(ABC(&H0))", ["XY", "arr_AB"]),
        ]
        for rule, src, idents in more:
            try:
                st, _ = f2.build(rule, src, operand_rules={})
                text = st.basic09_text(1)
            except Exception as e:  # noqa
                res.append(ob("position/%s" % src, False, idents, "%s: %s" % (type(e).__name__, str(e)[:100])))
                continue
            user = re.findall(r"(?<![A-Za-z_0-9.$])((?:arr_)?[A-Z][A-Z0-9]?\$?)(?![A-Za-z0-9_$])", re.sub(r'"[^"]*"', '""', text))
            user = [u for u in user if u not in ("IF", "TO", "OR")]
            res.append(ob("position/%s" % src, sorted(user) == sorted(idents), sorted(idents), dict(identifiers=sorted(user), text=text)))
        return res
    return guarded("position", run)


def scan_generated():
    gen = {}
    for path in sorted(glob.glob(os.path.join(B09DIR, "*.py"))):
        tree = ast.parse(open(path).read())
        for node in ast.walk(tree):
            if isinstance(node, ast.Call) and getattr(node.func, "id", getattr(node.func, "attr", None)) == "BasicVar" and node.args:
                a = node.args[0]
                if isinstance(a, ast.Constant) and isinstance(a.value, str):
                    gen.setdefault(a.value, []).append("%s:%d" % (os.path.basename(path), node.lineno))
                elif isinstance(a, ast.JoinedStr):
                    lit = "".join(v.value if isinstance(v, ast.Constant) else "#" for v in a.values)
                    gen.setdefault(lit, []).append("%s:%d" % (os.path.basename(path), node.lineno))
    return gen


def initializer_skips_generated():
    """the variable initialiser sees every BasicVar, generated ones included: it assigns the user variables only"""
    def run():
        gen = scan_generated()
        names_gen = sorted({g.replace("#", "1") for g in gen if not g.startswith("arr_")} | {"pid", "display", "play", "erno", "tmp_1", "tmp_1$", "tmp_10"})
        user = ["A", "AB", "Z9", "A$", "AB$", "Z9$"]
        v = V.VarInitializerVisitor()
        for nm in names_gen + user:
            v.visit_var(E.BasicVar(nm, nm.endswith("$")))
        assigned = []
        for l in v.assignment_lines:
            assigned += re.findall(r"([A-Za-z_0-9$]+) :=", l.basic09_text(0))
        return [ob("initializer/only user variables are assigned", sorted(assigned) == sorted(user), sorted(user), sorted(assigned),
                   "shown: generated %r + user %r" % (names_gen, user))]
    return guarded("initializer", run)


def initializer_kinds():
    """a scalar and an array of one name are two variables for the initialiser too: DIMming the array does not initialise the scalar, and
    a scalar that is DIMmed (initialised at its DIM) does not excuse the array"""
    def run():
        from coco.b09.compiler import convert
        res = []
        for nm, zero in (("A", "0.0"), ("AB", "0.0"), ("Z9", "0.0"), ("A$", '""'), ("AB$", '""')):
            for name, src, want_scalar in (("array DIMmed, scalar used", "10 DIM %s(5)\n20 PRINT %s;%s(1)\n" % (nm, nm, nm), True),
                                            ("array DIMmed with another, scalar used", "10 DIM Q(2),%s(5)\n20 PRINT %s;%s(1)\n" % (nm, nm, nm), True),
                                            ("scalar DIMmed, array used", "10 DIM %s\n20 PRINT %s;%s(1)\n" % (nm, nm, nm), True)):
                try:
                    text = convert(src, add_standard_prefix=False, initialize_vars=True)
                    scalar = bool(re.search(r"(^|\n|\\ )%s := (0\.0|0|\"\")(\n| |$)" % re.escape(nm), text))
                    array = bool(re.search(r"arr_%s\(tmp_\d+\) := " % re.escape(nm), text))
                    got = dict(scalar_initialised=scalar, array_initialised=array)
                except Exception as e:  # noqa
                    got = "%s: %s" % (type(e).__name__, str(e)[:80])
                want = dict(scalar_initialised=want_scalar, array_initialised=True)
                res.append(ob("initializer/kinds/%s/%s" % (name, nm), got == want, want, got, src))
        return res
    return guarded("initializer/kinds", run)


def temporaries_are_generated_names():
    """the value of a hoisted call travels in an identifier the tool generates: no user variable - the assignment target least of all -
    stands in for a temporary.  Only the outermost call of `target = F(..)` delivers into the target, and it is the last call of the line"""
    def run():
        from coco.b09.compiler import convert
        res = []
        for src in ("A=INT(INT(B)+A)", 'A$=STRING$(3,STR$(B)+A$)', "A=INT(VAL(C$))+INT(A)", "A(1)=INT(INT(B)+A(1))", "A=INSTR(INT(A),B$,HEX$(A))", "IF INT(A)=1 THEN A=INT(INT(A)+1)", "A=INT(INT(INT(A)))",
                    "A$=HEX$(VAL(A$)+LEN(STR$(A)))", "PRINT INT(A);STR$(A)", "FOR A=INT(A) TO INT(INT(A)+1):NEXT", "A=BUTTON(JOYSTK(A))", "B$=INKEY$+B$:A$=STR$(INSTR(1,A$,INKEY$))"):
            text = convert("10 %s\n" % src, add_standard_prefix=False)
            bad = []
            for line in text.split("\n"):
                parts = [p.strip() for p in re.sub(r'"[^"]*"', '""', line).split(" \\ ")]
                calls = [(k, p) for k, p in enumerate(parts) if re.match(r"(?i)^(\d+ )?(IF .* THEN )?run \w+\(", p) or re.match(r"(?i)^(\d+ )?run \w+\(", p)]
                for k, p in calls:
                    inner = p[p.index("(") + 1:p.rindex(")")] if "(" in p and ")" in p else ""
                    depth, cut = 0, 0
                    for pos, ch in enumerate(inner):
                        depth += ch == "("
                        depth -= ch == ")"
                        if ch == "," and depth == 0:
                            cut = pos + 1
                    dest = inner[cut:].strip()
                    is_tmp = re.fullmatch(r"tmp_\d+\$?", dest) is not None
                    is_last = k == len(parts) - 1
                    if not is_tmp and not is_last and re.match(r"(?i).*run ecb_(int|val|str|hex|button|joystk|point|instr|string)\(", p) or (not is_tmp and not is_last and re.search(r"(?i)run inkey\(", p)):
                        bad.append("%s delivers into the user variable %s in the middle of the line" % (p, dest))
            res.append(ob("temporaries/%s" % src, not bad, "every hoisted call but the last of its line delivers into a generated tmp_N", bad[:2] or "ok", text))
        return res
    return guarded("temporaries", run)


def initializer_per_array():
    """with initialize_vars a DIM statement clears each array it declares - its own identifier, its own bounds - however many arrays of
    one shape it lists"""
    def run():
        from coco.b09.compiler import convert
        res = []
        for src, want in {"DIM A(5),B(5),C$(5),D$(5)": {"arr_A": "5", "arr_B": "5", "arr_C$": "5", "arr_D$": "5"}, "DIM E(2,3),F(2,3),G(3,2)": {"arr_E": "2,3", "arr_F": "2,3", "arr_G": "3,2"},
                          "DIM AB(4),AC(4),A(4),AB$(4)": {"arr_AB": "4", "arr_AC": "4", "arr_A": "4", "arr_AB$": "4"}, "DIM A(1):DIM B(1):DIM A$(1)": {"arr_A": "1", "arr_B": "1", "arr_A$": "1"}}.items():
            text = convert("10 %s\n" % src, add_standard_prefix=False, initialize_vars=True)
            got = {}
            for line in text.split("\n"):
                m = re.search(r"(arr_[A-Z][A-Z0-9]?\$?)\((tmp_\d+(?:, tmp_\d+)*)\) := ", line)
                if m:
                    bounds = re.findall(r"FOR tmp_\d+ = 0 TO (\S+)", line)
                    got.setdefault(m.group(1), []).append(",".join(bounds))
            ok = {k: [v] for k, v in want.items()} == got
            res.append(ob("initializer/arrays/%s" % src, ok, {k: [v] for k, v in want.items()}, got, text))
        return res
    return guarded("initializer/arrays", run)


def initializer_positions():
    """with initialize_vars every user scalar that the program can read gets its Color BASIC start value (0 / "") in the prologue, in
    whatever position it occurs - a FOR control variable too: a jump can reach a use before the FOR ran - and nothing else does:
    no temporary, no record, no handle of the runtime (`pid`)"""
    def run():
        from coco.b09.compiler import convert
        res = []
        P = {"FOR control": ("10 FOR V9=1 TO 2:NEXT", ["V9"]), "FOR bound": ("10 FOR I=1 TO V9:NEXT", ["I", "V9"]), "FOR step": ("10 FOR I=1 TO 2 STEP V9:NEXT", ["I", "V9"]),
             "FOR control read before the loop": ("10 IF I=0 THEN 30\n20 FOR I=1 TO 3:NEXT I\n30 PRINT I", ["I"]), "NEXT": ("10 FOR I=1 TO 2:NEXT I:V9=V9", ["I", "V9"]),
             "IF condition": ("10 IF V9=1 THEN 10", ["V9"]), "ON selector": ("10 ON V9 GOTO 10", ["V9"]), "subscript": ("10 A(V9)=1", ["V9"]), "function argument": ("10 A=ABS(V9)", ["A", "V9"]),
             "PRINT item": ("10 PRINT V9", ["V9"]), "call argument": ("10 SOUND V9,1", ["V9"]), "convertible function argument": ("10 A=INT(V9)", ["A", "V9"]), "string in LEN": ("10 A=LEN(V9$)", ["A", "V9$"]),
             "string PRINT": ("10 PRINT V9$", ["V9$"]), "HBUFF (the runtime's handle pid is not a user variable)": ("10 HBUFF 1,10:V9=1", ["V9"]), "HGET with a user variable": ("10 HBUFF 1,10:HGET(0,0)-(V9,1),1", ["V9"]),
             "PLAY": ('10 PLAY V9$', ["V9$"]), "ELSE arm": ("10 IF A=1 THEN B=1 ELSE B=V9", ["A", "B", "V9"]), "POKE": ("10 POKE V9,1", ["V9"]), "three-letter user names": ("10 PID=1:TMP=PID:ERN=1", ["ER", "PI", "TM"]),
             "hoisted temporaries next to user variables": ("10 A=INT(B)+VAL(C$)+LEN(STR$(D))", ["A", "B", "C$", "D"])}
        for name, (src, want) in P.items():
            for prefix in (True, False):
                text = convert(src + "\n", add_standard_prefix=prefix, initialize_vars=True)
                got = sorted(set(re.findall(r'(?m)^\s*([A-Za-z_0-9$]+) := (?:0(?:\.0*)?|"")\s*$', text)))
                res.append(ob("initializer/positions/%s,prefix=%d" % (name, prefix), got == sorted(want), sorted(want), got, src))
        return res
    return guarded("initializer/positions", run)


def reserved_values():
    """A name the tool reads as a value of its own (the error number ERNO, the keyboard INKEY$, TIMER-like nullary
    tokens: every rule of the real grammar that is one upper-case literal and sits in an expression alternative) denotes
    that value in every position: each variable position either refuses the name or yields the identifier an expression
    yields for it.  Otherwise one source name would be two different BASIC09 identifiers depending on where it stands."""
    def run():
        from parsimonious import expressions as PE
        res = []
        words = set()
        for name, rule in grammar.items():
            lit = rule if isinstance(rule, PE.Literal) else None
            if lit is not None and re.fullmatch(r"[A-Z]{3,}\$?", lit.literal):
                # is it usable as an expression on its own?
                for top in ("exp", "str_exp"):
                    try:
                        grammar[top].parse(lit.literal)
                        words.add((lit.literal, top))
                    except ParseError:
                        pass
        words |= {("ERNO", "exp")}
        positions = {
            "num_assign": "{w}=1", "str_assign": '{w}="X"', "for_statement": "FOR {w}=1 TO 2", "next_statement": "NEXT {w}",
            "read_statement": "READ {w}", "input_statement": "INPUT {w}", "dim_statement": "DIM {w}(3)", "varptr_expr": "VARPTR({w})", "arr_assign": "{w}(1)=2",
            "dim_statement ": "DIM {w}", "line_input_statement": "LINE INPUT {w}",
        }
        for w, top in sorted(words):
            try:
                reading = BasicVisitor().visit(grammar[top].parse(w)).basic09_text(0)
            except Exception as e:  # noqa
                res.append(ob("reserved/%s reads" % w, False, "a value", "%s: %s" % (type(e).__name__, e)))
                continue
            bad = {}
            for rule, tmpl in positions.items():
                src = tmpl.replace("{w}", w)
                try:
                    st, _ = f2.build(rule.strip(), src, operand_rules={})
                except Exception:  # noqa  (refused: fine)
                    continue
                text = st.basic09_text(1)
                if reading not in text:
                    bad[src] = text
            res.append(ob("reserved/%s" % w, not bad, "every variable position refuses %s or yields %r" % (w, reading), bad or "refused everywhere or %r" % reading))
        res.append(ob("reserved/found", ("ERNO", "exp") in words, "ERNO among the nullary value tokens", sorted(words)))
        return res
    return guarded("reserved", run)


def kinds_in_declarations():
    """scalar N, array N(), string N$ and string array N$() are four variables: a program that uses all four of one name gets
    four identifiers, each declared under exactly one kind (scalar or array), whatever position the uses stand in and whatever
    string size is requested"""
    from coco.b09.compiler import convert

    def run():
        res = []
        progs = {
            "DIM scalar and array of one name": "10 DIM N,N(50),T$,T$(30)\n20 N=1:N(40)=7:T$=\"A\":T$(20)=\"B\"\n",
            "DIM array then scalar": "10 DIM N(50),N,T$(30),T$\n20 N=1:N(40)=7:T$=\"A\":T$(20)=\"B\"\n",
            "implicit arrays next to scalars": "10 N=1:N(4)=7:T$=\"A\":T$(2)=\"B\":PRINT N;N(4);T$;T$(2)\n",
            "READ targets": "10 DATA 1,2,A,B\n20 READ N,N(3),T$,T$(3)\n",
            "READ targets with an empty item": "10 DATA 1,,A,B\n20 READ N,N(3),T$,T$(3)\n",
            "INPUT targets": "10 INPUT N,N(3),T$,T$(3)\n",
            "two DIM statements": "10 DIM N(5)\n20 DIM N,T$\n30 DIM T$(6)\n40 N=N(1):T$=T$(1)\n",
        }
        want = {"N": "scalar", "arr_N": "array", "T$": "scalar", "arr_T$": "array"}
        for name, src in progs.items():
            for size in (32, 80):
                try:
                    text = convert(src, add_standard_prefix=False, default_str_storage=size, initialize_vars=True)
                except Exception as e:  # noqa
                    res.append(ob("kinds/%s,size=%d" % (name, size), False, "converted", "%s: %s" % (type(e).__name__, str(e)[:100])))
                    continue
                kinds = {}
                for line in text.split("\n"):
                    m = re.match(r"^(?:\d+ )?DIM (.*)$", line.strip())
                    if not m:
                        continue
                    body = re.sub(r":\s*STRING(\[\d+\])?", "", m.group(1))
                    for item in re.split(r",\s*(?![^()]*\))|;\s*", body):
                        item = item.strip()
                        mm = re.match(r"^([A-Za-z_][A-Za-z_0-9]*\$?)(\(.*\))?$", item)
                        if mm:
                            kinds.setdefault(mm.group(1), []).append("array" if mm.group(2) else "scalar")
                bad = {k: v for k, v in kinds.items() if k in want and (len(set(v)) > 1 or v[0] != want[k] or len(v) > 1)}
                if name.startswith("DIM "):
                    # the array the source DIMensions keeps its own bound (it is not taken for the scalar of the same name)
                    for ident, bound in (("arr_N", 51), ("arr_T$", 31)):
                        if not re.search(r"DIM [^\n]*%s\(%d\)" % (re.escape(ident), bound), text):
                            bad[ident + " bound"] = "no declaration %s(%d) in the output" % (ident, bound)
                used = set(re.findall(r"(?<![A-Za-z_0-9$.])((?:arr_)?[NT]\$?)(?![A-Za-z0-9_$])", re.sub(r'"[^"]*"', '""', text)))
                stray = sorted(used - set(want))
                res.append(ob("kinds/%s,size=%d" % (name, size), not bad and not stray, "each of N, arr_N, T$, arr_T$ declared at most once, under its own kind", dict(declared=kinds, wrong=bad, stray=stray) if bad or stray else "ok"))
        return res
    return guarded("kinds-in-declarations", run)


def next_names():
    # a bare NEXT is given the variable of the loop it closes: the identifier written must be that loop's variable (shared with C02)
    from tx import p_c02
    return [dict(o, id="next/" + o["id"]) for o in p_c02.next_patcher()]


def config_names_c09():
    # a name in the string-size configuration denotes the same identifier as that name in the program (shared with C10)
    from tx.p_c10 import config_names
    return config_names()


def obligations():
    from tx.p_c05 import share
    from tx import p_c10
    # each READ target receives its own datum: a scalar and an array element of one name are different receivers (shared with C03 / C05)
    from tx.p_c03 import empty_item_protocol
    from tx.p_c05 import read_targets_through_filter
    return share("read/", empty_item_protocol() + read_targets_through_filter()) + share("declared-kinds/", [o for o in p_c10.positions() if "same name" in o["id"]]) + truncation() + kinds_disjoint() + generated_identifiers() + variable_positions() + positions_through_rules() + reserved_values() + initializer_skips_generated() + initializer_kinds() + initializer_per_array() + initializer_positions() + temporaries_are_generated_names() + config_names_c09() + kinds_in_declarations() + next_names()
