"""C09: the identifier the tool emits for a source name is its first two characters plus the type suffix (Color
BASIC's rule), arrays get the `arr_` prefix, and generated identifiers cannot collide with user names."""
import ast
import glob
import itertools
import os
import re

from parsimonious.exceptions import ParseError

import coco
from coco.b09 import elements as E, visitors as V
from coco.b09.grammar import grammar
from coco.b09.parser import BasicVisitor
from tx import f2
from tx.opaque import OpqExp
from tx.p_c05 import ob, guarded

B09DIR = os.path.join(os.path.dirname(coco.__file__), "b09")
ALPH = "ABZ019"      # representatives: letters (incl. extremes) and digits; the code only slices, it never inspects characters


def names(maxlen):
    for n in range(1, maxlen + 1):
        for tail in itertools.product("ABCDEFGHIJKLMNOPQRSTUVWXYZ0123456789" if n <= 2 else ALPH, repeat=n - 1):
            for head in ("ABCDEFGHIJKLMNOPQRSTUVWXYZ" if n <= 2 else "AQZ"):
                yield head + "".join(tail)


def truncation():
    """for every name the real var / str_var regex accepts: emitted identifier = first two characters (+ $)"""
    def run():
        bv = BasicVisitor()
        bad, n = [], 0
        for nm in names(5):
            for suffix, rule in (("", "var"), ("$", "str_var")):
                src = nm + suffix
                try:
                    node = grammar[rule].parse(src)
                except ParseError:
                    continue          # rejected by the grammar (keyword prefix ...): no identifier is emitted
                n += 1
                got = bv.visit(node)
                exp = nm[:2] + suffix
                if not isinstance(got, E.BasicVar) or got.name() != exp or got.is_str_expr != (suffix == "$"):
                    bad.append((src, getattr(got, "name", lambda: got)()))
        return [ob("truncation/all accepted names up to 5 characters", not bad and n > 1000, "name[:2] + suffix", bad[:5] or "%d names" % n,
                   bounded="all 1-2 character names, representative alphabets for longer ones, both suffixes")]
    return guarded("truncation", run)


def kinds_disjoint():
    def run():
        res = []
        for nm, is_str in (("A", False), ("AB", False), ("A1", False), ("A$", True), ("AB$", True), ("A1$", True)):
            v = E.BasicVar(nm, is_str_expr=is_str)
            a = E.BasicArrayRef(v, E.BasicExpressionList([OpqExp("i")]), is_str_expr=is_str)
            res.append(ob("array-prefix/%s" % nm, a.var.name() == "arr_" + nm and a.var.is_str_expr == is_str, "arr_" + nm, a.var.name()))
        # implicit arrays are declared under the identifier they are referenced by
        for nm in ("A", "AB", "A1", "A$", "AB$", "A1$"):
            d = V.DeclareImplicitArraysVisitor(dimmed_var_names=set())
            ref = E.BasicArrayRef(E.BasicVar(nm, is_str_expr=nm.endswith("$")), E.BasicExpressionList([OpqExp("i")]), is_str_expr=nm.endswith("$"))
            d.visit_array_ref(ref)
            texts = [s.basic09_text(0) for s in d.dim_statements]
            res.append(ob("implicit-array-identifier/%s" % nm, texts == ["DIM arr_%s(11)" % nm], ["DIM arr_%s(11)" % nm], texts))
        # source DIM of an array keeps the identifier
        for nm in ("AB", "A1$"):
            ref = E.BasicArrayRef(E.BasicVar(nm, is_str_expr=nm.endswith("$")), E.BasicExpressionList([E.BasicLiteral(5)]), is_str_expr=nm.endswith("$"))
            st = E.BasicDimStatement([ref])
            res.append(ob("dim-identifier/%s" % nm, st.basic09_text(0) == "DIM arr_%s(6)" % nm, "DIM arr_%s(6)" % nm, st.basic09_text(0)))
        return res
    return guarded("kinds", run)


def generated_identifiers():
    """identifiers the tool writes itself: each has at least three characters before any suffix or contains `_` / `.`,
    so it differs from every user identifier (at most two characters + optional $, or arr_ + that)"""
    def run():
        gen = {}
        for path in sorted(glob.glob(os.path.join(B09DIR, "*.py"))):
            tree = ast.parse(open(path).read())
            for node in ast.walk(tree):
                if isinstance(node, ast.Call) and getattr(node.func, "id", getattr(node.func, "attr", None)) == "BasicVar" and node.args:
                    a = node.args[0]
                    if isinstance(a, ast.Constant) and isinstance(a.value, str):
                        gen.setdefault(a.value, []).append("%s:%d" % (os.path.basename(path), node.lineno))
                    elif isinstance(a, ast.JoinedStr):
                        lit = "".join(v.value if isinstance(v, ast.Constant) else "#" for v in a.values)
                        gen.setdefault(lit, []).append("%s:%d" % (os.path.basename(path), node.lineno))
        user = re.compile(r"^(arr_)?[A-Z][A-Z0-9]?\$?$")
        bad = {g: s for g, s in gen.items() if user.match(g.replace("#", "1")) and not g.startswith("arr_#")}
        # ERNO is the one upper-case generated name: 4 characters, cannot be a (2-character) user identifier
        return [ob("generated-identifiers-disjoint", not bad and len(gen) >= 8, "no generated identifier has the shape of a user identifier", bad or sorted(gen))]
    return guarded("generated", run)


def variable_positions():
    """every rule that can hold a user variable reaches it through var / str_var: the identifier-capable terminals of
    the real grammar are exactly the known ones"""
    def run():
        from parsimonious import expressions as PE
        ident_like = []
        for name, rule in grammar.items():
            if isinstance(rule, PE.Regex):
                pat = rule.re.pattern
                if re.search(r"\[A-Z\]|\[A-Z0-9\]|\.\*|\[\^", pat):
                    ident_like.append(name)
        known = {"var", "str_var", "comment_text", "data_str_literal", "str_literal", "partial_str_lit"}
        extra = sorted(set(ident_like) - known)
        return [ob("identifier-capable-terminals", not extra and {"var", "str_var"} <= set(ident_like), sorted(known), sorted(ident_like),
                   "a new terminal that can match identifier-like text would bypass the naming rule")]
    return guarded("positions", run)


def positions_through_rules():
    """assignment target, expression, FOR/NEXT, READ/INPUT target, DIM, VARPTR, subscripts: the same source name gives
    the same identifier in every position"""
    def run():
        res = []
        forms = {
            "num_assign": ("ABC=1", "AB"), "str_assign": ('ABC$="X"', "AB$"), "for_statement": ("FOR ABC=1 TO 2", "AB"),
            "next_statement": ("NEXT ABC", "AB"), "read_statement": ("READ ABC,ABC$", "AB"), "input_statement": ("INPUT ABC$", "AB$"),
            "dim_statement": ("DIM ABC(3)", "arr_AB"), "varptr_expr": ("VARPTR(ABC)", "AB"), "arr_assign": ("ABC(1)=2", "arr_AB"),
        }
        for rule, (src, ident) in forms.items():
            st, _ = f2.build(rule, src, operand_rules={})
            text = st.basic09_text(1)
            res.append(ob("position/%s" % rule, re.search(r"(?<![A-Za-z_0-9])%s(?![A-Za-z0-9])" % re.escape(ident), text) is not None and "ABC" not in text, ident, text))
        return res
    return guarded("position", run)


def obligations():
    return truncation() + kinds_disjoint() + generated_identifiers() + variable_positions() + positions_through_rules()
