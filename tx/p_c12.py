"""C12: conversion is a deterministic function of input and options.
(i)  order-determinacy typing: a value that depends on the iteration order of a set never reaches the output -
     every iteration over a set-typed expression in coco/b09 is under sorted() (without a key), or at a site whose
     result is order-free for a stated reason;
(ii) no state outlives a call: no memoising decorator, no `global`, no module-level mutable object that a function
     mutates, no mutable default argument;
(iii) bounded confirmations: hash seeds 0..5 in separate processes; A, B, A in one process."""
import ast
import re
import glob
import json
import os
import subprocess
import sys

import coco
from tx.tier import THOROUGH, pick
from tx.p_c05 import ob, guarded

B09DIR = os.path.join(os.path.dirname(coco.__file__), "b09")
FILES = sorted(glob.glob(os.path.join(B09DIR, "*.py"))) + [os.path.join(os.path.dirname(coco.__file__), "decb_to_b09.py")]

# iteration sites over sets whose *result* does not depend on the order, with the reason
ORDER_FREE_SITES = {
    ("procbank.py", "_add_procedure_dependencies"): "the loop only inserts into the set `dependencies`; the visit order of a DFS does not change the reachable set",
    ("compiler.py", "convert"): "joins the undefined line numbers into the *message* of the ParseError that is raised; no output is produced",
}


def set_typed_names(tree):
    """attribute / variable / property names that hold a set: assigned from set(), a set display or comprehension,
    a difference/union of such, .copy() of such, or a property returning such"""
    names = set()
    changed = True

    def is_set_expr(e):
        if isinstance(e, (ast.Set, ast.SetComp)):
            return True
        if isinstance(e, ast.Call) and isinstance(e.func, ast.Name) and e.func.id in ("set", "frozenset"):
            return True
        if isinstance(e, ast.Call) and isinstance(e.func, ast.Attribute) and e.func.attr in ("copy", "union", "difference", "intersection") and is_set_expr(e.func.value):
            return True
        if isinstance(e, ast.BinOp) and isinstance(e.op, (ast.Sub, ast.BitOr, ast.BitAnd, ast.BitXor)) and (is_set_expr(e.left) or is_set_expr(e.right)):
            return True
        if isinstance(e, ast.Attribute) and e.attr in names:
            return True
        if isinstance(e, ast.Name) and e.id in names:
            return True
        if isinstance(e, ast.Subscript) and isinstance(e.value, ast.Attribute) and e.value.attr in names_of_set_valued_maps:
            return True
        if isinstance(e, ast.Call) and isinstance(e.func, ast.Attribute) and e.func.attr in set_returning_methods:
            return True
        return False
    names_of_set_valued_maps = set()
    set_returning_methods = set()
    while changed:
        changed = False
        for node in ast.walk(tree):
            if isinstance(node, (ast.Assign, ast.AnnAssign)) and getattr(node, "value", None) is not None:
                targets = node.targets if isinstance(node, ast.Assign) else [node.target]
                # defaultdict(lambda: set())
                v = node.value
                if isinstance(v, ast.Call) and getattr(v.func, "id", "") == "defaultdict" and v.args and isinstance(v.args[0], ast.Lambda) and is_set_expr(v.args[0].body):
                    for t in targets:
                        nm = t.attr if isinstance(t, ast.Attribute) else getattr(t, "id", None)
                        if nm and nm not in names_of_set_valued_maps:
                            names_of_set_valued_maps.add(nm)
                            changed = True
                if is_set_expr(v):
                    for t in targets:
                        nm = t.attr if isinstance(t, ast.Attribute) else getattr(t, "id", None)
                        if nm and nm not in names:
                            names.add(nm)
                            changed = True
            if isinstance(node, ast.FunctionDef):
                for st in ast.walk(node):
                    if isinstance(st, ast.Return) and st.value is not None and is_set_expr(st.value):
                        is_prop = any(getattr(d, "id", "") == "property" for d in node.decorator_list)
                        tgt = names if is_prop else set_returning_methods
                        if node.name not in tgt:
                            tgt.add(node.name)
                            changed = True
            if isinstance(node, ast.arg) and node.annotation is not None and "Set" in ast.unparse(node.annotation):
                if node.arg not in names:
                    names.add(node.arg)
                    changed = True
    return is_set_expr


def order_typing():
    def run():
        problems, sites = [], 0
        for path in FILES:
            tree = ast.parse(open(path).read())
            is_set = set_typed_names(tree)
            fname = os.path.basename(path)
            parents = {}
            for n in ast.walk(tree):
                for c in ast.iter_child_nodes(n):
                    parents[c] = n

            def func_of(n):
                while n in parents:
                    n = parents[n]
                    if isinstance(n, ast.FunctionDef):
                        return n.name
                return "<module>"

            def under_sorted(n):
                p = parents.get(n)
                return isinstance(p, ast.Call) and getattr(p.func, "id", "") == "sorted" and p.args and p.args[0] is n and not p.keywords

            iters = []
            for n in ast.walk(tree):
                if isinstance(n, ast.For):
                    iters.append(n.iter)
                elif isinstance(n, ast.comprehension):
                    iters.append(n.iter)
                elif isinstance(n, ast.Call) and getattr(n.func, "id", getattr(n.func, "attr", "")) in ("list", "tuple", "join", "enumerate", "sorted"):
                    iters += n.args[:1]
            for it in iters:
                if not is_set(it):
                    continue
                sites += 1
                p = parents.get(it)
                if isinstance(p, ast.Call) and getattr(p.func, "id", "") == "sorted" and p.args and p.args[0] is it:
                    if p.keywords:
                        problems.append("%s:%d %s(): sorted() of a set with a key - ties are broken by set order" % (fname, it.lineno, func_of(it)))
                    continue
                if isinstance(p, ast.comprehension) and under_sorted(parents.get(p)):
                    continue
                if (fname, func_of(it)) in ORDER_FREE_SITES:
                    continue
                problems.append("%s:%d %s(): iteration over the set `%s` outside sorted()" % (fname, it.lineno, func_of(it), ast.unparse(it)))
        return [ob("order/every set iteration is sorted or order-free", not problems and sites >= 4, "no unsorted set iteration reaches the output", problems or "%d set-iteration sites" % sites,
                   "order-free sites: %s" % {"%s:%s" % k: v for k, v in ORDER_FREE_SITES.items()})]
    return guarded("order", run)


OWN_CLASSES = set()
MUTABLE_CLASSES = set()


def persistent_state():
    def run():
        problems = []
        global OWN_CLASSES
        OWN_CLASSES = set()
        global MUTABLE_CLASSES
        MUTABLE_CLASSES = set()
        bases = {}
        for path in FILES:
            for n in ast.walk(ast.parse(open(path).read())):
                if isinstance(n, ast.ClassDef):
                    OWN_CLASSES.add(n.name)
                    bases[n.name] = [ast.unparse(b).split(".")[-1] for b in n.bases]
                    for fn in n.body:
                        if isinstance(fn, ast.FunctionDef) and fn.name != "__init__":
                            for sub in ast.walk(fn):
                                tg = sub.targets if isinstance(sub, ast.Assign) else [sub.target] if isinstance(sub, (ast.AugAssign, ast.AnnAssign)) else []
                                for t in tg:
                                    base = t.value if isinstance(t, ast.Subscript) else t
                                    if isinstance(base, ast.Attribute) and ast.unparse(base).startswith("self."):
                                        MUTABLE_CLASSES.add(n.name)
                                if isinstance(sub, ast.Call) and isinstance(sub.func, ast.Attribute) and ast.unparse(sub.func.value).startswith("self.") \
                                        and sub.func.attr in ("append", "extend", "add", "update", "pop", "clear", "insert", "remove", "setdefault"):
                                    MUTABLE_CLASSES.add(n.name)
        changed = True
        while changed:
            changed = False
            for c, bs in bases.items():
                if c not in MUTABLE_CLASSES and any(b in MUTABLE_CLASSES for b in bs):
                    MUTABLE_CLASSES.add(c)
                    changed = True
        for path in FILES:
            tree = ast.parse(open(path).read())
            fname = os.path.basename(path)
            module_mutables = {}
            for st in tree.body:
                if isinstance(st, ast.Assign) and isinstance(st.value, (ast.List, ast.Dict, ast.Set, ast.ListComp, ast.DictComp, ast.SetComp)):
                    for t in st.targets:
                        if isinstance(t, ast.Name):
                            module_mutables[t.id] = st.lineno
            # objects built once at import time and shared by every call: instances of the tool's own (mutable) classes at
            # module level, mutable containers or such instances as class attributes
            def is_shared_mutable(v):
                if isinstance(v, (ast.List, ast.Dict, ast.Set, ast.ListComp, ast.DictComp, ast.SetComp)):
                    return "a mutable container"
                if isinstance(v, ast.Call):
                    fn = ast.unparse(v.func).split(".")[-1]
                    if fn in ("set", "list", "dict", "bytearray", "defaultdict", "OrderedDict", "deque", "Counter"):
                        return "a mutable container"
                    if fn in OWN_CLASSES:
                        # only objects some method can modify after construction (statements collect hoisted calls, functional
                        # expressions get a result variable, literals have setters ...) - directly or through a part
                        if fn in MUTABLE_CLASSES:
                            return "an instance of %s (modifiable after construction)" % fn
                        for sub in ast.walk(v):
                            if sub is not v and isinstance(sub, ast.Call) and ast.unparse(sub.func).split(".")[-1] in MUTABLE_CLASSES:
                                return "an instance of %s holding a modifiable %s" % (fn, ast.unparse(sub.func).split(".")[-1])
                return None
            for st in tree.body:
                if isinstance(st, (ast.Assign, ast.AnnAssign)) and st.value is not None:
                    why = is_shared_mutable(st.value)
                    if why and why.startswith("an instance"):
                        tg = st.targets[0] if isinstance(st, ast.Assign) else st.target
                        problems.append("%s:%d module-level %s is %s: every conversion shares (and may modify) it" % (fname, st.lineno, ast.unparse(tg), why))
            for n in ast.walk(tree):
                if isinstance(n, ast.ClassDef):
                    for st in n.body:
                        if isinstance(st, (ast.Assign, ast.AnnAssign)) and st.value is not None:
                            why = is_shared_mutable(st.value)
                            if why:
                                tg = st.targets[0] if isinstance(st, ast.Assign) else st.target
                                problems.append("%s:%d class attribute %s.%s is %s shared by all instances" % (fname, st.lineno, n.name, ast.unparse(tg), why))
            for n in ast.walk(tree):
                if isinstance(n, ast.Global) or isinstance(n, ast.Nonlocal):
                    problems.append("%s:%d global/nonlocal statement" % (fname, n.lineno))
                if isinstance(n, ast.FunctionDef):
                    for d in n.decorator_list:
                        txt = ast.unparse(d)
                        if "cache" in txt:
                            problems.append("%s:%d %s is memoised (%s): its result object is shared between calls" % (fname, n.lineno, n.name, txt))
                    for dflt in n.args.defaults + [d for d in n.args.kw_defaults if d is not None]:
                        if isinstance(dflt, (ast.List, ast.Dict, ast.Set, ast.Call)) and not (isinstance(dflt, ast.Call) and ast.unparse(dflt.func) in ("stdiotobuffer", "CompilerConfigs", "StringConfigs")):
                            if isinstance(dflt, (ast.List, ast.Dict, ast.Set)):
                                problems.append("%s:%d mutable default argument in %s" % (fname, n.lineno, n.name))
                    for sub in ast.walk(n):
                        # mutation of a module-level container from inside a function
                        if isinstance(sub, ast.Call) and isinstance(sub.func, ast.Attribute) and isinstance(sub.func.value, ast.Name) and sub.func.value.id in module_mutables \
                                and sub.func.attr in ("append", "extend", "update", "add", "setdefault", "pop", "clear", "insert", "remove"):
                            problems.append("%s:%d %s mutates module-level %s" % (fname, sub.lineno, n.name, sub.func.value.id))
                        if isinstance(sub, (ast.Assign, ast.AugAssign)):
                            tg = sub.targets if isinstance(sub, ast.Assign) else [sub.target]
                            for t in tg:
                                if isinstance(t, ast.Subscript) and isinstance(t.value, ast.Name) and t.value.id in module_mutables:
                                    problems.append("%s:%d %s writes into module-level %s" % (fname, sub.lineno, n.name, t.value.id))
                                if isinstance(t, ast.Attribute) and isinstance(t.value, ast.Name) and t.value.id in ("cls",) :
                                    problems.append("%s:%d %s assigns a class attribute" % (fname, sub.lineno, n.name))
        return [ob("state/no state outlives a call", not problems, "no memoisation, globals, mutated module containers, class-attribute writes or mutable defaults", problems or "none")]
    return guarded("state", run)


PROG_A = '10 B(1)=1:A(1)=2:Z9(1)=3:Q$(1)="x":XY=1:XY$="s":PRINT STR$(B(1));HEX$(2)\n20 PLAY "C":HSCREEN 2:X=VAL("1")\n30 INPUT "n";N:LINE INPUT L$:READ R:DATA 1\n40 HCIRCLE(1,2),3:HLINE(1,2)-(3,4),PSET:WIDTH 40\n'
PROG_B = '10 SOUND 1,2:HCOLOR 1:A$=STRING$(3,"x"):X=INSTR(1,A$,"x"):HDRAW "U1"\n20 K$=INKEY$:IF INKEY$="" THEN 20\n30 J=JOYSTK(0):B=BUTTON(1):P=POINT(1,2):H$=HEX$(J):V=INT(J)+VAL(K$)\n40 DATA 1,,2\n50 READ D1,D2$:HCIRCLE(1,2),3,4:ON ERR GOTO 10\n'


def confirmations():
    def run():
        res = []
        repo = os.path.dirname(os.path.dirname(os.path.abspath(coco.__file__)))
        code = ("import sys, hashlib\nfrom coco.b09.compiler import convert\n"
                "o = convert(%r, initialize_vars=True, default_str_storage=80, output_dependencies=True, procname='p')\n"
                "print(hashlib.sha256(o.encode()).hexdigest())" % PROG_A)
        hashes = set()
        for seed in range(pick(6, 32)):
            env = dict(os.environ, PYTHONHASHSEED=str(seed), PYTHONPATH=repo)
            p = subprocess.run([sys.executable, "-c", code], capture_output=True, text=True, env=env)
            hashes.add(p.stdout.strip() or p.stderr[-200:])
        res.append(ob("confirm/hash seeds 0..%d give one output" % (pick(6, 32) - 1), len(hashes) == 1, "1 distinct output", "%d distinct outputs" % len(hashes), bounded="%d hash seeds," % pick(6, 32) + " one program with several implicit arrays, strings and dependencies"))
        from coco.b09.compiler import convert
        kw = dict(output_dependencies=True, procname="p", default_str_storage=80)
        a1 = convert(PROG_A, **kw)
        convert(PROG_B, **kw)
        convert(PROG_B, output_dependencies=True, procname="p")
        a2 = convert(PROG_A, **kw)
        import copy
        from coco.b09.configs import CompilerConfigs, StringConfigs
        changed = []
        for keys in ({"A$": 10}, {"A$": 10, "N$()": 40}, {}):
            cfg = CompilerConfigs(string_configs=StringConfigs(strname_to_size=dict(keys)))
            before = copy.deepcopy(cfg.model_dump())
            outs = []
            for size, src in ((80, '10 DIM A$,B$,C$(3),N$(2)\n20 B$="x"\n'), (40, '10 DIM A$,B$,C$(3),N$(2)\n20 B$="x"\n'), (80, '10 DIM A$,B$,C$(3),N$(2)\n20 B$="x"\n')):
                outs.append(convert(src, default_str_storage=size, compiler_configs=cfg, add_standard_prefix=False))
            if cfg.model_dump() != before:
                changed.append(dict(configuration=keys, after=cfg.model_dump()))
            if outs[0] != outs[2]:
                changed.append(dict(configuration=keys, problem="the same call gives different text after a call with another size"))
        res.append(ob("frame/convert() leaves its option objects unchanged", not changed, "compiler_configs equal before and after; call 1 == call 3", changed[:2] or "unchanged",
                      bounded="three configurations x three calls sharing one CompilerConfigs object"))
        # equal option values give equal text: the order in which a configuration mapping lists its keys is not part of its value
        import itertools
        src = '10 DIM A$,B$,C$(3),N$(2),D$\n20 B$="x":E$="y":F$(1)=B$\n'
        sizes = {"A$": 10, "B$": 20, "N$()": 40, "D$": 10, "E$": 7, "F$()": 9}
        outs = {}
        for perm in itertools.permutations(sorted(sizes), 3):
            for rest in (sorted(set(sizes) - set(perm)), sorted(set(sizes) - set(perm), reverse=True)):
                order = list(perm) + rest
                cfg = CompilerConfigs(string_configs=StringConfigs(strname_to_size={k: sizes[k] for k in order}))
                for init in (False, True):
                    outs.setdefault((init, convert(src, default_str_storage=80, compiler_configs=cfg, add_standard_prefix=False, initialize_vars=init)), []).append(order)
        bykind = {init: [o for (i, o) in outs if i == init] for init in (False, True)}
        ok = all(len(v) == 1 for v in bykind.values())
        res.append(ob("confirm/equal option values listed in another key order give the same text", ok, "1 distinct output per option set", {k: len(v) for k, v in bykind.items()} if not ok else "1 each over %d key orders" % (len(outs[next(iter(outs))])),
                      src, bounded="240 key orders of one six-entry mapping x initialize_vars"))
        leaks = []
        for name, src in {"hex DATA item next to an empty one": "10 DATA &H1F,,7,A\n20 READ A,B,C,D$\n30 DATA &HFF,&H10\n", "PROG_A": PROG_A, "PROG_B": PROG_B,
                          "hex operands": "10 POKE &HFF22,&H80:A=&H7FFF:DIM B(&H10)\n"}.items():
            for kw2 in (dict(), dict(initialize_vars=True, output_dependencies=True, procname="p")):
                out = convert(src, **kw2)
                m = re.search(r"<[\w.]+ object at 0x[0-9a-fA-F]+>|\bat 0x[0-9a-fA-F]{6,}", out)
                if m:
                    leaks.append("%s: %s" % (name, m.group(0)))
        res.append(ob("confirm/no object identity (memory address) in the output", not leaks, "none", leaks[:3] or "none", bounded="4 programs x 2 option sets"))
        res.append(ob("confirm/A,B,A in one process", a1 == a2, "first and third outputs identical", "identical" if a1 == a2 else "%d vs %d bytes" % (len(a1), len(a2)), bounded="one sequence of conversions"))
        return res
    return guarded("confirm", run)


def decoders_functional():
    """the image decoders: no module-level state written by convert(), no clock / randomness / environment reads;
    their F1 contracts (C16-C19) already state the output as a function of input bytes and options"""
    def run():
        problems = []
        root = os.path.dirname(coco.__file__)
        for name in ("hrstoppm", "maxtoppm", "mgetoppm", "cm3toppm", "rattoppm", "pixtopgm", "veftopng", "util"):
            tree = ast.parse(open(os.path.join(root, name + ".py")).read())
            for n in ast.walk(tree):
                if isinstance(n, (ast.Import, ast.ImportFrom)):
                    mods = [a.name for a in n.names] + ([n.module] if isinstance(n, ast.ImportFrom) and n.module else [])
                    for m in mods:
                        if m.split(".")[0] in ("random", "time", "datetime", "uuid", "secrets"):
                            problems.append("%s imports %s" % (name, m))
                if isinstance(n, (ast.Global, ast.Nonlocal)):
                    problems.append("%s:%d global/nonlocal" % (name, n.lineno))
                if isinstance(n, ast.FunctionDef) and any("cache" in ast.unparse(d) for d in n.decorator_list):
                    problems.append("%s:%d memoised function %s" % (name, n.lineno, n.name))
                if isinstance(n, ast.Attribute) and ast.unparse(n) in ("os.environ",):
                    problems.append("%s:%d reads the environment" % (name, n.lineno))
                # an output file is (re)created empty: what an earlier run left under the same name is never part of the result
                if isinstance(n, ast.Call) and ast.unparse(n.func) in ("os.open",):
                    flags = ast.unparse(n.args[1]) if len(n.args) > 1 else ""
                    if ("O_WRONLY" in flags or "O_RDWR" in flags) and "O_TRUNC" not in flags:
                        problems.append("%s:%d os.open(%s) writes without O_TRUNC: bytes of an earlier, longer file survive" % (name, n.lineno, flags))
                if isinstance(n, ast.Call) and ast.unparse(n.func) == "open" and len(n.args) > 1 and isinstance(n.args[1], ast.Constant) \
                        and isinstance(n.args[1].value, str) and n.args[1].value not in ("r", "rb", "w", "wb", "rt", "wt"):
                    problems.append("%s:%d open(..., %r): only plain read / truncating write modes keep the output a function of the input" % (name, n.lineno, n.args[1].value))
            # module-level mutable containers: inside functions they may only be read (indexed, iterated, measured)
            mutables = {}
            for st in tree.body:
                if isinstance(st, (ast.Assign, ast.AnnAssign)) and st.value is not None:
                    v = st.value
                    is_mut = isinstance(v, (ast.List, ast.Dict, ast.Set, ast.ListComp, ast.DictComp, ast.SetComp)) \
                        or (isinstance(v, ast.BinOp) and isinstance(v.left, (ast.List,)) or isinstance(v, ast.BinOp) and isinstance(v.right, (ast.List,))) \
                        or (isinstance(v, ast.Call) and ast.unparse(v.func) in ("list", "dict", "set", "bytearray", "collections.defaultdict", "defaultdict", "io.BytesIO", "BytesIO"))
                    if is_mut:
                        for t in (st.targets if isinstance(st, ast.Assign) else [st.target]):
                            if isinstance(t, ast.Name):
                                mutables[t.id] = st.lineno
            parents = {}
            for n in ast.walk(tree):
                for c in ast.iter_child_nodes(n):
                    parents[c] = n
            for fn in [n for n in ast.walk(tree) if isinstance(n, (ast.FunctionDef, ast.Lambda))]:
                for n in ast.walk(fn):
                    if isinstance(n, ast.Name) and n.id in mutables:
                        par = parents.get(n)
                        read_only = (
                            (isinstance(par, ast.Subscript) and par.value is n and isinstance(par.ctx, ast.Load))
                            or (isinstance(par, ast.Call) and n in par.args and ast.unparse(par.func) in ("len", "enumerate", "sorted", "tuple", "sum", "min", "max", "bytes"))
                            or (isinstance(par, (ast.For, ast.comprehension)) and par.iter is n)
                            or (isinstance(par, ast.Compare) and n in par.comparators)
                        )
                        if not read_only:
                            problems.append("%s:%d module-level container %s (line %d) is %s inside %s: it outlives the call" % (
                                name, n.lineno, n.id, mutables[n.id],
                                "written" if isinstance(par, ast.Subscript) and not isinstance(par.ctx, ast.Load) else "aliased or passed on",
                                getattr(fn, "name", "lambda")))
        import importlib.util
        spec = importlib.util.spec_from_file_location("io_rules", os.path.join(os.path.dirname(os.path.dirname(os.path.abspath(__file__))), "vcheck", "io_rules.py"))
        io_rules = importlib.util.module_from_spec(spec)
        spec.loader.exec_module(io_rules)
        problems += io_rules.scan(os.path.dirname(root))
        return [ob("decoders/no hidden inputs or persistent state", not problems, "none", problems or "none")]
    return guarded("decoders", run)


def obligations():
    from tx import p_c13
    return order_typing() + persistent_state() + decoders_functional() + confirmations() + __import__("tx.p_c05", fromlist=["share"]).share("cli/", __import__("tx.p_c11", fromlist=["x"]).command_line()) + [dict(o, id="history/" + o["id"]) for o in p_c13.history()]
