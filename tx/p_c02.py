"""C02-specific obligations: FOR/NEXT pairing, semantics of the emitted IF forms for every valuation of the
conditions, statement and line sequencing through convert()."""
import itertools

from coco.b09 import elements as E, visitors as V
from coco.b09.prog import BasicProg
from tx import opaque
from tx.inject import convert_ast
from tx.opaque import OpqExp, OpqStmt, mark
from tx.p_c05 import ob, guarded
from tx.run_cases import norm


def next_patcher():
    """for_stack is the list of FOR statements not yet closed, in visit order: a bare NEXT closes the innermost open
    loop and receives its variable; NEXT v1,v2 closes one loop per variable."""
    def run():
        res = []
        scripts = {
            "nested-bare": ["F:I", "F:J", "N:", "N:"],
            "bare-after-explicit": ["F:I", "F:J", "N:J", "N:"],
            "list-then-new-loop": ["F:I", "F:J", "N:J,I", "F:K", "N:"],
            "sequential": ["F:I", "N:", "F:J", "N:"],
            "unbalanced-next": ["N:", "F:I", "N:"],
        }
        for name, script in scripts.items():
            p = V.BasicNextPatcherVisitor()
            open_loops = []
            got, exp = [], []
            for step in script:
                kind, arg = step.split(":")
                if kind == "F":
                    v = OpqExp(arg)
                    p.visit_for_statement(E.BasicForStatement(v, OpqExp("a"), OpqExp("b")))
                    open_loops.append(arg)
                else:
                    vs = [OpqExp(x) for x in arg.split(",") if x]
                    n = E.BasicNextStatement(E.BasicExpressionList(vs))
                    p.visit_next_statement(n)
                    got.append([x._opaque_tag for x in n.var_list.exp_list])
                    if vs:
                        exp.append([x._opaque_tag for x in vs])
                        for _ in vs:
                            if open_loops:
                                open_loops.pop()
                    else:
                        exp.append([open_loops.pop()] if open_loops else [])
            stack = [x._opaque_tag for x in p.for_stack]
            res.append(ob("next/%s" % name, got == exp and stack == open_loops, dict(next_vars=exp, open_after=open_loops), dict(next_vars=got, open_after=stack),
                          "script %s" % script))
        return res
    return guarded("next", run)


def fornext_count():
    def run():
        c = V.ForNextVisitor()
        seq = []
        c.visit_for_statement(None); seq.append(c.count)
        c.visit_for_statement(None); seq.append(c.count)
        c.visit_next_statement(E.BasicNextStatement(E.BasicExpressionList([OpqExp("a"), OpqExp("b")]))); seq.append(c.count)
        return [ob("fornext/count", seq == [1, 2, 0], [1, 2, 0], seq, "opens minus closes (used for indentation only)")]
    return guarded("fornext/count", run)


class Loop(Exception):
    pass


def run_structured(text, truth):
    """Executes IF/ELSE/ENDIF and LOOP/EXITIF/ENDEXIT/ENDLOOP (BASIC09 manual) over opaque bodies.
    truth: marker tag -> bool for conditions.  Returns the list of body tags executed.  Raises Loop if a LOOP repeats
    without any state change (it would repeat for ever)."""
    lines = [l.strip() for l in text.split("\n") if l.strip()]
    pc, out, steps = 0, [], 0
    import re
    tag = lambda s: re.search(r"⟦([a-z0-9]+)@", s).group(1)

    def find_match(i, opener, closer):
        depth = 0
        for j in range(i, len(lines)):
            w = lines[j].split(" ")[0]
            if w == opener or (opener == "IF" and w == "IF" and lines[j].endswith("THEN")):
                depth += 1
            if w == closer:
                depth -= 1
                if depth == 0:
                    return j
        raise ValueError("unbalanced " + opener)
    loops = []
    while pc < len(lines):
        steps += 1
        if steps > 500:
            raise Loop()
        ln = lines[pc]
        w = ln.split(" ")[0]
        if w == "IF" and ln.endswith("THEN"):
            cond = truth[tag(ln)]
            end = find_match(pc, "IF", "ENDIF")
            # find ELSE at depth 1
            depth, els = 0, None
            for j in range(pc, end):
                w2 = lines[j].split(" ")[0]
                if w2 == "IF" and lines[j].endswith("THEN"):
                    depth += 1
                elif w2 == "ENDIF":
                    depth -= 1
                elif w2 == "ELSE" and depth == 1:
                    els = j
            if cond:
                pc += 1
                stop = els if els is not None else end
                # run the then part, then jump to after ENDIF
                sub = "\n".join(lines[pc:stop])
                out += run_structured(sub, truth)
                pc = end + 1
            else:
                if els is not None:
                    out += run_structured("\n".join(lines[els + 1:end]), truth)
                pc = end + 1
        elif w == "LOOP":
            end = find_match(pc, "LOOP", "ENDLOOP")
            body = lines[pc + 1:end]
            # run body repeatedly
            for _ in range(3):
                j = 0
                exited = False
                progressed = False
                while j < len(body):
                    b = body[j]
                    if b.startswith("EXITIF"):
                        c = True if " TRUE " in b + " " else truth[tag(b)]
                        k = j
                        while body[k] != "ENDEXIT":
                            k += 1
                        if c:
                            out += run_structured("\n".join(body[j + 1:k]), truth)
                            exited = True
                            break
                        j = k + 1
                    else:
                        out.append(tag(b))
                        progressed = True
                        j += 1
                if exited:
                    break
                if not progressed:
                    raise Loop()
            else:
                raise Loop()
            pc = end + 1
        elif "⟧" in ln and w not in ("ELSE", "ENDIF", "ENDEXIT", "ENDLOOP"):
            out.append(tag(ln))
            pc += 1
        else:
            pc += 1
    return out


def if_semantics():
    """For every valuation of the conditions, the emitted form runs exactly the arm Color BASIC runs, then leaves."""
    def run():
        res = []
        for nelif, has_else in itertools.product((0, 1, 2, 3), (False, True)):
            arms = [E.BasicIf(OpqExp("c%d" % k), OpqStmt("s%d" % k)) for k in range(1, nelif + 1)]
            o = E.BasicIfElse(if_exp=OpqExp("c0"), then_statements=OpqStmt("s0"), else_if_statements=arms,
                              else_statements=OpqStmt("se") if has_else else None)
            text = norm(o.basic09_text(1))
            bad = []
            for vals in itertools.product((False, True), repeat=nelif + 1):
                truth = {"c%d" % k: v for k, v in enumerate(vals)}
                first = next((k for k, v in enumerate(vals) if v), None)
                expect = ["s%d" % first] if first is not None else (["se"] if has_else else [])
                try:
                    got = run_structured(text, truth)
                except Loop:
                    got = "LOOP never exits"
                if got != expect:
                    bad.append(dict(valuation=vals, expected=expect, got=got))
            res.append(ob("if-forms/elif=%d,else=%d" % (nelif, has_else), not bad, "for all valuations: the first true arm (else the ELSE body), once", bad[:3],
                          "structured semantics of IF/ELSE/ENDIF and LOOP/EXITIF/ENDEXIT/ENDLOOP evaluated on the text the real class emits"))
        # plain IF
        o = E.BasicIf(OpqExp("c0"), OpqStmt("s0"))
        text = norm(o.basic09_text(1))
        bad = [v for v in (False, True) if run_structured(text, {"c0": v}) != (["s0"] if v else [])]
        res.append(ob("if-forms/plain", not bad, "body iff condition", bad))
        return res
    return guarded("if-forms", run)


def if_parse_forms():
    """The real IF rules of the grammar and the real visitor on every form x every kind of arm, conditions opaque:
    (a) no emitted physical line starts with a digit (that would *define* a line in BASIC09, not jump to it);
    (b) the jumps the emitted text performs, in order, are the jumps of the source arms (bare `THEN n`/`ELSE n` is a
        GOTO, a GOSUB stays a GOSUB);
    (c) the condition after IF / EXITIF is of BOOLEAN kind for an arbitrary numeric source condition, in every form
        (BASIC09 refuses a REAL there)."""
    import re
    from tx import f2

    def run():
        res = []
        ARMS = [("bare", "{n}", [("GOTO", "{n}")]), ("goto", "GOTO {n}", [("GOTO", "{n}")]), ("gosub", "GOSUB {n}", [("GOSUB", "{n}")]),
                ("gosub-goto", "GOSUB {n}:GOTO 9{n}", [("GOSUB", "{n}"), ("GOTO", "9{n}")]),
                ("goto-after-stmt", "STOP:GOTO {n}", [("GOTO", "{n}")]), ("gosub-then-stop", "GOSUB {n}:STOP", [("GOSUB", "{n}")])]
        forms = []
        for nelif, has_else in itertools.product((0, 1, 2), (False, True)):
            forms.append((nelif, has_else))
        for (nelif, has_else), sp in itertools.product(forms, ("", " ")):
            narms = 1 + nelif + (1 if has_else else 0)
            for kinds in (itertools.product(range(len(ARMS)), repeat=narms) if narms <= 2 else
                          [tuple((k + j) % len(ARMS) for j in range(narms)) for k in range(len(ARMS))]):
                parts, expect = [], []
                for j, k in enumerate(kinds):
                    n = str(100 + j)
                    arm = ARMS[k][1].replace("{n}", n)
                    expect += [(w, t.replace("{n}", n)) for w, t in ARMS[k][2]]
                    if j == 0:
                        parts.append("IF%sC0%sTHEN%s%s" % (" ", " ", sp, arm))
                    elif j <= nelif:
                        parts.append("ELSE%sIF C%d THEN%s%s" % (" ", j, sp, arm))
                    else:
                        parts.append("ELSE%s%s" % (sp if not arm[0].isalpha() else " ", arm))
                src = " ".join(parts)
                name = "if-parse/elif=%d,else=%d,arms=%s,sp=%r" % (nelif, has_else, "+".join(ARMS[k][0] for k in kinds), sp)
                try:
                    o, nops = f2.build("statement", src, {"if_exp": False})
                    text = norm(o.basic09_text(1))
                except Exception as e:  # noqa
                    res.append(ob(name, False, "the form parses and is emitted", "%s: %s" % (type(e).__name__, str(e)[:150]), src))
                    continue
                lines = [l.strip() for l in text.split("\n")]
                bad = []
                if any(re.match(r"\d", l) for l in lines):
                    bad.append("a physical line starts with a number (defines a line instead of jumping): %r" % [l for l in lines if re.match(r"\d", l)])
                jumps = []
                for l in lines:
                    m = re.match(r"(?:IF|EXITIF) .* THEN (\d+)$", l)
                    if m:
                        jumps.append(("GOTO", m.group(1)))
                    jumps += re.findall(r"\b(GOTO|GOSUB) (\d+)", l)
                if jumps != expect:
                    bad.append("jumps %r, source has %r" % (jumps, expect))
                for l in lines:
                    m = re.match(r"(?:IF|EXITIF) (.*?) THEN", l)
                    if m and m.group(1) != "TRUE" and not re.fullmatch(r"⟦E\d+@\d⟧ <> 0(\.0?)?", m.group(1)):
                        bad.append("condition %r is the bare numeric operand, not a BOOLEAN expression" % m.group(1))
                if nops != 1 + nelif:
                    bad.append("%d conditions found, %d written" % (nops, 1 + nelif))
                res.append(ob(name, not bad, "jumps as written, conditions boolean, no stray line definitions", bad[:3], src + "  =>  " + text.replace("\n", " | ")))
        return res
    return guarded("if-parse", run)


def condition_coercion():
    """Color BASIC takes an IF branch when the value of a numeric condition is non-zero.  Contract of the coercion every IF
    visitor applies: an expression of BOOLEAN kind (comparison, boolean NOT / parentheses / AND / OR) is the condition as it
    stands; every other expression e - whatever its class - becomes exactly `e <> 0.0`."""
    import re
    from coco.b09.parser import BasicVisitor
    from tx import subst, f2

    def run():
        res = []
        fn = getattr(BasicVisitor, "_as_condition", None)
        boolean = ("comparison", "boolean-not", "boolean-paren")
        if fn is not None:
            bad = []
            for name, make in subst.children(False):
                opaque.reset()
                e = make()
                try:
                    got = fn(e)
                    gt = norm(got.basic09_text(0))
                    want = norm(e.basic09_text(0)) + ("" if name in boolean else " <> 0.0")
                    if gt != want or (name in boolean and got is not e):
                        bad.append(dict(condition=name, expected=want, got=gt))
                except Exception as ex:  # noqa
                    bad.append(dict(condition=name, got="%s: %s" % (type(ex).__name__, str(ex)[:100])))
            res.append(ob("condition/coercion of every expression class", not bad, "boolean kinds unchanged, everything else `e <> 0.0`", bad[:4] or "holds"))
        # the same through the real rules: every IF form, conditions of each shape the grammar can produce
        conds = {"A": "A <> 0.0", "(A)": "(A) <> 0.0", "(A-B)": "(A - B) <> 0.0", "-A": "- A <> 0.0", "NOT A": "LNOT(A) <> 0.0", "A AND 1": "LAND(A, 1.0) <> 0.0",
                 "(A AND 1)": "(LAND(A, 1.0)) <> 0.0", "A+B": "A + B <> 0.0", "NOT (A AND 4)": "LNOT((LAND(A, 4.0))) <> 0.0", "ABS(A)": "ABS(A) <> 0.0",
                 "A=1": "A = 1.0", "(A=1)": "(A = 1.0)", "NOT A=1": "NOT(A = 1.0)", "A=1 OR B=2": "A = 1.0 OR B = 2.0"}
        forms = ["IF %s THEN 10", "IF %s THEN B=1", "IF %s THEN 10 ELSE 20", "IF %s THEN B=1 ELSE B=2", "IF Z=9 THEN 10 ELSE IF %s THEN 20", "IF %s THEN 10 ELSE IF Z=9 THEN 20 ELSE 30"]
        for c, want in conds.items():
            bad = []
            for form in forms:
                src = form % c
                try:
                    o, _ = f2.build("statement", src, {})
                    text = norm(o.basic09_text(0))
                except Exception as ex:  # noqa
                    bad.append(dict(source=src, got="%s: %s" % (type(ex).__name__, str(ex)[:100])))
                    continue
                found = re.findall(r"(?m)^(?:IF|EXITIF) (.*?) THEN", text)
                if want not in found:
                    bad.append(dict(source=src, conditions_emitted=found, expected=want))
            res.append(ob("condition/%s in every IF form" % c, not bad, want, bad[:3] or "holds"))
        return res
    return guarded("condition", run)


def nested_if_semantics():
    """IFs inside IFs (rest-of-line THEN branches, ELSE arms): for every valuation of the variables the emitted text - read with
    BASIC09's precedence table and block structure - runs the assignments / jumps Color BASIC runs.  Conditions are real
    comparisons joined by AND / OR, so a regrouping of conditions shows."""
    import re
    from coco.b09.compiler import convert
    from tx.p_c01 import tree, B09_LEVELS, CB_LEVELS

    def ev(t, env):
        if isinstance(t, float):
            return t
        if isinstance(t, str):
            return float(env[t])
        op = t[0]
        if op == "NOT":
            return 0.0 if ev(t[1], env) else -1.0
        if op == "NEG":
            return -ev(t[1], env)
        a, b = ev(t[1], env), ev(t[2], env)
        if op == "AND":
            return -1.0 if (a and b) else 0.0
        if op == "OR":
            return -1.0 if (a or b) else 0.0
        if op == "=":
            return -1.0 if a == b else 0.0
        if op == "<>":
            return -1.0 if a != b else 0.0
        if op == "<":
            return -1.0 if a < b else 0.0
        if op == ">":
            return -1.0 if a > b else 0.0
        if op == "+":
            return a + b
        if op == "-":
            return a - b
        if op == "*":
            return a * b
        raise ValueError(op)

    def run_b09(text, env):
        """effects: list of 'X=<v>' assignments and 'GOTO n'; block IF / ELSE / ENDIF and one-line IF c THEN n"""
        lines = [l.strip() for l in text.split("\n") if l.strip()]
        lines[0] = re.sub(r"^\d+ ", "", lines[0])
        out, pc = [], 0
        skip_stack = []
        while pc < len(lines):
            l = lines[pc]
            m1 = re.match(r"^IF (.*) THEN (\d+)$", l)
            m2 = re.match(r"^IF (.*) THEN$", l)
            active = all(skip_stack)
            if m1:
                if active and ev(tree(m1.group(1), B09_LEVELS), env):
                    out.append("GOTO " + m1.group(2))
                    return out
            elif m2:
                skip_stack.append(bool(ev(tree(m2.group(1), B09_LEVELS), env)) if active else False)
            elif l == "ELSE":
                outer = all(skip_stack[:-1])
                skip_stack[-1] = (not skip_stack[-1]) and outer if outer else False
            elif l == "ENDIF":
                skip_stack.pop()
            elif active:
                m = re.match(r"^([A-Z])\s*:?=\s*(\d+)", l)
                if m:
                    out.append("%s=%s" % (m.group(1), m.group(2)))
                m = re.match(r"^GOTO (\d+)$", l)
                if m:
                    out.append("GOTO " + m.group(1))
                    return out
            pc += 1
        return out

    def run():
        import itertools
        res = []
        cases = {
            "IF A=1 OR B=1 THEN IF C=1 THEN X=1": lambda a, b, c: ["X=1"] if (a or b) and c else [],
            "IF A=1 THEN IF B=1 OR C=1 THEN X=1": lambda a, b, c: ["X=1"] if a and (b or c) else [],
            "IF A=1 OR B=1 THEN IF C=1 THEN 60": lambda a, b, c: ["GOTO 60"] if (a or b) and c else [],
            "IF A=1 THEN IF B=1 THEN X=1 ELSE X=2": lambda a, b, c: (["X=1"] if b else ["X=2"]) if a else [],
            "IF A=1 OR B=1 THEN X=1:IF C=1 THEN X=2": lambda a, b, c: (["X=1", "X=2"] if c else ["X=1"]) if (a or b) else [],
            "IF A=1 THEN X=1 ELSE IF B=1 OR C=1 THEN X=2 ELSE X=3": lambda a, b, c: ["X=1"] if a else (["X=2"] if (b or c) else ["X=3"]),
            "IF A=1 AND B=1 OR C=1 THEN X=1": lambda a, b, c: ["X=1"] if (a and b) or c else [],
            "IF A=1 THEN IF B=1 THEN IF C=1 THEN X=1": lambda a, b, c: ["X=1"] if a and b and c else [],
        }
        for src, want in cases.items():
            try:
                text = convert("10 %s\n60 END\n" % src, add_standard_prefix=False)
                body = text[:text.index("\n60 ")]
            except Exception as e:  # noqa
                res.append(ob("nested-if/%s" % src, False, "converted", "%s: %s" % (type(e).__name__, str(e)[:100])))
                continue
            bad = []
            if "LOOP" in body:
                # ELSE IF chains: evaluated by the structured runner of if_semantics on real text is out of this helper's subset
                body2 = None
            for a, b, c in itertools.product((0, 1), repeat=3):
                env = dict(A=a, B=b, C=c)
                try:
                    got = run_b09(body, env) if "LOOP" not in body else None
                except Exception as e:  # noqa
                    got = "%s: %s" % (type(e).__name__, e)
                if got is not None and got != want(a, b, c):
                    bad.append(dict(A=a, B=b, C=c, expected=want(a, b, c), got=got))
            res.append(ob("nested-if/%s" % src, not bad, "same assignments / jumps as Color BASIC for all 8 valuations", bad[:3] or body.replace("\n", " | ")[:150]))
        return res
    return guarded("nested-if", run)


def jumps_land():
    # a jump transfers control to the line it names: the label exists exactly where the source line stood (shared with C06)
    from tx import p_c06
    return [dict(o, id="jumps/" + o["id"]) for o in p_c06.targets_through_convert()]


def independence_shared_with_c05():
    # statements of one line and lines of one program are executed in sequence: each is translated on its own (shared with C05)
    from tx.p_c05 import statement_independence
    return statement_independence()


def prog_sequencing():
    def run():
        res = []
        p = BasicProg([E.BasicLine(10, OpqStmt("a")), E.BasicLine(20, OpqStmt("b"))])
        p.extend_prefix_lines([E.BasicLine(None, OpqStmt("pre1"))])
        p.append_lines([E.BasicLine(None, OpqStmt("suf1"))])
        p.insert_lines_at_beginning([E.BasicLine(None, OpqStmt("ins1")), E.BasicLine(None, OpqStmt("ins2"))])
        for name in ("", "myprog"):
            p.set_procname(name)
            got = norm(p.basic09_text(0))
            exp = "\n".join((["procedure myprog"] if name else []) + [str(mark("pre1", 0)), str(mark("ins1", 0)), str(mark("ins2", 0)),
                                                                      "10 " + str(mark("a", 0)), "20 " + str(mark("b", 0)), str(mark("suf1", 0))])
            res.append(ob("prog/order,procname=%r" % name, got == exp, exp, got, "header, prefix lines, inserted lines, source lines in order, suffix lines"))
        return res
    return guarded("prog/order", run)


def convert_sequencing():
    """Through convert(): every source statement appears exactly once and in source order, whatever the options."""
    def run():
        res = []
        tags = ["q%d" % k for k in range(1, 8)]

        def fac():
            S = lambda *t: E.BasicStatements([OpqStmt(x) if isinstance(x, str) else x for x in t])
            return [E.BasicLine(10, S("q1", "q2")), E.BasicLine(20, S(E.BasicIf(OpqExp("c"), S("q3", "q4")), "q5")),
                    E.BasicLine(30, S(E.BasicStatements([OpqStmt("q6"), OpqStmt("q7")], multi_line=False)))]
        for filt, init, prefix in itertools.product((False, True), (False, True), (False, True)):
            opaque.reset()
            text = convert_ast(fac, filter_unused_linenum=filt, initialize_vars=init, add_standard_prefix=prefix)
            import re
            seq = re.findall(r"⟦(q\d)@", text)
            res.append(ob("convert/statement-order,filter=%d,init=%d,prefix=%d" % (filt, init, prefix), seq == tags, tags, seq))
        return res
    return guarded("convert/statement-order", run)


def empty_statements():
    """an empty statement (`::`, `: :`) is nothing: every statement around it is executed, in order, on a line and in an IF arm"""
    def run():
        import re
        from coco.b09.compiler import convert
        res = []
        cases = {'PRINT "A"::PRINT "B": :PRINT "C"': ["A", "B", "C"], 'IF Q=1 THEN PRINT "A"::PRINT "B" ELSE PRINT "C": :PRINT "D":::PRINT "E"': ["A", "B", "C", "D", "E"],
                 'FOR I=1 TO 2::PRINT "A"::NEXT:PRINT "B"': ["A", "B"], '::PRINT "A"': ["A"], 'PRINT "A"::': ["A"], 'PRINT "A":: :: ::PRINT "B"': ["A", "B"], 'IF Q=1 THEN ::PRINT "A"': ["A"],
                 'PRINT "A"::GOTO 10::PRINT "B"': ["A", "B"]}
        for src, want in cases.items():
            for kw in (dict(), dict(filter_unused_linenum=True, initialize_vars=True)):
                try:
                    text = convert("10 %s\n" % src, add_standard_prefix=False, **kw)
                    got = re.findall(r'PRINT "(\w)"', text)
                    closers = (text.count("NEXT"), text.count("GOTO 10"))
                    want_closers = (src.count("NEXT"), src.count("GOTO 10"))
                except Exception as e:  # noqa
                    got, closers, want_closers = "%s: %s" % (type(e).__name__, str(e)[:60]), 0, 0
                res.append(ob("empty-statements/%s%s" % (src, ",filter+init" if kw else ""), got == want and closers == want_closers, want, got if got != want else "NEXT/GOTO %s vs %s" % (closers, want_closers)))
        return res
    return guarded("empty-statements", run)


def relation_spellings():
    """the relation that decides a branch is the relation the source spells: `=<` is <=, `=>` is >=, in every IF form, for numeric and
    string operands, whichever operand is on which side"""
    def run():
        import re
        from coco.b09.compiler import convert
        res = []
        meaning = {"=": "EQ", "<>": "NE", "<": "LT", ">": "GT", "<=": "LE", "=<": "LE", ">=": "GE", "=>": "GE"}
        frames = {"IF..THEN line": "10 IF %s THEN 10", "IF..THEN statement": "10 IF %s THEN C=1", "IF..THEN..ELSE": "10 IF %s THEN C=1 ELSE C=2",
                  "ELSE IF condition": "10 IF Q=1 THEN C=1 ELSE IF %s THEN C=2 ELSE C=3", "conjunction": "10 IF Q=1 AND %s THEN 10", "negation": "10 IF NOT(%s) THEN 10"}
        for fname, frame in frames.items():
            for a, b in (("A", "B"), ("A$", "B$"), ("A", "3"), ('A$', '"x"'), ("A(1)", "B")):
                bad = []
                for op, m in meaning.items():
                    src = frame % (a + op + b)
                    try:
                        text = convert(src + "\n", add_standard_prefix=False)
                    except Exception as e:  # noqa
                        bad.append("%s: %s" % (src, type(e).__name__))
                        continue
                    lhs = {"A": "A", "A$": r"A\$", "A(1)": r"arr_A\(1\.0\)"}[a]
                    found = re.search(lhs + r" (<>|<=|=<|>=|=>|=|<|>) ", text)
                    got = meaning.get(found.group(1)) if found else None
                    if got != m:
                        bad.append("%s -> %s" % (src, text.strip().split("\n")[0][:70]))
                res.append(ob("relations/%s/%s?%s" % (fname, a, b), not bad, "the emitted relation means what the source relation means (8 spellings)", bad[:3] or "8 spellings"))
        return res
    return guarded("relations", run)


def obligations():
    # a branch taken before a loop ran reads the loop variable's start value: the initialiser covers it (shared with C09)
    from tx.p_c05 import share
    from tx.p_c09 import initializer_positions
    return share("start-values/", initializer_positions()) + relation_spellings() + empty_statements() + next_patcher() + fornext_count() + if_semantics() + if_parse_forms() + condition_coercion() + nested_if_semantics() + independence_shared_with_c05() + jumps_land() + prog_sequencing() + convert_sequencing()
