"""python -m tx.prop <PROP> : all obligations of a property that are decided by executing the real transpiler code
on opaque parts.  Runs under /venv/bin/python with the tree under test first on sys.path."""
import importlib
import json
import sys


def main():
    prop = sys.argv[1]
    from tx import cases, run_cases
    obs = []
    for c in cases.CASES:
        if prop in c.props:
            obs += run_cases.run_case(c)
    try:
        mod = importlib.import_module("tx.p_" + prop.lower())
    except ModuleNotFoundError:
        mod = None
    if mod is not None:
        obs += mod.obligations()
    if prop in ("C01", "C05", "C07"):
        from tx import subst
        obs += subst.obligations(prop)
    if prop in ("C03", "C04", "C09", "C10"):
        # declarations, initialisations and identifiers are collected by passes: they are complete only if every class presents every
        # part to a pass (the V contracts of all classes, whichever property the class case was written for)
        seen = {o["id"] for o in obs}
        for c in cases.CASES:
            if prop not in c.props:
                for o in run_cases.run_case(c):
                    if o["id"].startswith("V/") and o["id"] not in seen:
                        seen.add(o["id"])
                        obs.append(dict(o, id="traversal/" + o["id"], finding_key=o.get("finding_key", o["id"])))
    if prop in ("C03", "C04", "C05", "C06", "C10", "C11"):
        from tx import pipeline
        obs += pipeline.obligations()
    json.dump(dict(obligations=obs), sys.stdout, ensure_ascii=False)


if __name__ == "__main__":
    main()
