"""python -m tx.prop <PROP> : all obligations of a property that are decided by executing the real transpiler code
on opaque parts.  Runs under /venv/bin/python with the tree under test first on sys.path."""
import importlib
import json
import sys


def main():
    prop = sys.argv[1]
    from tx import cases, run_cases
    obs = []
    for c in cases.CASES:
        if prop in c.props:
            obs += run_cases.run_case(c)
    try:
        mod = importlib.import_module("tx.p_" + prop.lower())
    except ModuleNotFoundError:
        mod = None
    if mod is not None:
        obs += mod.obligations()
    if prop in ("C01", "C05", "C07"):
        from tx import subst
        obs += subst.obligations(prop)
    if prop in ("C03", "C05", "C06", "C10"):
        from tx import pipeline
        obs += pipeline.obligations()
    json.dump(dict(obligations=obs), sys.stdout, ensure_ascii=False)


if __name__ == "__main__":
    main()
