#!/usr/bin/env python3-vt
"""Development helper: verify selected units and print their obligations."""
import sys, os, time, faulthandler
if os.environ.get("TRACE_AFTER"):
    faulthandler.dump_traceback_later(int(os.environ["TRACE_AFTER"]), exit=True)
sys.path.insert(0, os.path.dirname(os.path.abspath(__file__)))
from pyvc.verify import Context, verify_unit
from specs import decoders

repo = os.environ.get("VERIF_REPO", "/repo")
ctx = Context(repo, decoders.CONTRACTS, open(os.path.join(os.path.dirname(os.path.abspath(__file__)), "specs/specfuns.py")).read())
sel = sys.argv[1:]
for u in decoders.CONTRACTS:
    if sel and not any(s in u["name"] + "@" + u["tag"] for s in sel):
        continue
    t0 = time.time()
    r = verify_unit(ctx, u)
    bad = [o for o in r["obligations"] if o.verdict != "proved"]
    print("%-40s tag=%-4s paths=%d obligations=%d notproved=%d outcomes=%s %.1fs %s" % (u["name"], u["tag"], r["paths"], len(r["obligations"]), len(bad), r["outcomes"], time.time() - t0, r["error"] or ""), flush=True)
    if os.environ.get("SLOW"):
        for o in sorted(r["obligations"], key=lambda o: -o.seconds)[:8]:
            print("    slow %.1fs %s %s | %s" % (o.seconds, o.backend, o.oid, o.pathsig[-60:]))
        from pyvc import solver as _s
        print("   ", _s.stats)
    for o in bad[:12]:
        print("   ", o.verdict, o.oid, "|", o.pathsig, "|", o.detail[:100])
        if o.model is not None and os.environ.get("SHOWMODEL"):
            print("      model:", str(o.model)[:600])
