#!/usr/bin/env python3-vt
"""Developer tool: records the definition signatures of the locals of every function under contract on the pinned
tree (baseline_locals.json), so that a later pure rename of a local can be followed."""
import json, os, sys
ROOT = os.path.dirname(os.path.dirname(os.path.abspath(__file__)))
sys.path.insert(0, ROOT)
from pyvc.verify import Context
from specs import decoders
ctx = Context(os.environ.get("VERIF_REPO", "/repo"), decoders.CONTRACTS, open(os.path.join(ROOT, "specs/specfuns.py")).read())
out = {}
for u in decoders.CONTRACTS:
    out["%s.%s" % (u["module"], u["qualname"])] = ctx.local_signatures(u["module"], u["qualname"])
json.dump(out, open(os.path.join(ROOT, "baseline_locals.json"), "w"), indent=0, sort_keys=True)
print(len(out), "functions")
