#!/usr/bin/env python3
"""Prints the two generated tables of DESIGN.md section 0 (per-property status from evidence/*.json, seeded changes
from seeded/*/meta.json).  The tables are pasted into DESIGN.md by hand after a full clean-tree run."""
import glob
import json
import os

ROOT = os.path.dirname(os.path.dirname(os.path.abspath(__file__)))


def status():
    print("| id | level | obligations | discharged | failing as recorded known findings | bounded stand-ins | known findings printed | wall |")
    print("|---|---|---|---|---|---|---|---|")
    for p in sorted(glob.glob(os.path.join(ROOT, "evidence", "C*.json"))):
        e = json.load(open(p))
        c = e["coverage"]
        print("| %s | %s | %d | %d | %d | %d | %d | %d s |" % (e["property_id"], e["level"], c["obligations"], c["discharged"], c.get("failing_as_recorded_known_findings", 0), len(c.get("bounded_standins", [])),
                                                      len(c.get("known_findings_printed", [])), round(e["wall_s"])))


def seeds():
    print("| seed | property | what the change is | result | first replay |")
    print("|---|---|---|---|---|")
    for d in sorted(glob.glob(os.path.join(ROOT, "seeded", "*", ""))):
        m = json.load(open(d + "meta.json"))
        sid = os.path.basename(d[:-1])
        t = m.get("needs_to_manifest") or ""
        first = [l for l in t.split("\n") if l.strip()][:1]
        what = first[0].lstrip("# ").strip() if first else ""
        for sep in (" - ", " — ", " -- ", " – "):
            if sep in what:
                what = what.split(sep, 1)[1]
                break
        what = what.replace("|", "/")[:110]
        if m.get("obsolete"):
            print("| %s | %s | %s | obsolete: the property holds with this change since a later `fix:` (see meta.json) | |" % (sid, m["property"], what))
            continue
        det = m.get("detected_by", {})
        fr = (det.get("first_replays") or [""])[0].replace("replays/", "")
        print("| %s | %s | %s | exit %s, %s violation(s) | `%s` |" % (sid, m["property"], what, det.get("exit"), det.get("violations"), fr))


if __name__ == "__main__":
    import sys
    if len(sys.argv) < 2 or sys.argv[1] == "status":
        status()
    if len(sys.argv) < 2 or sys.argv[1] == "seeds":
        print()
        seeds()
