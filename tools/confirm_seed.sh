#!/bin/bash
# confirm_seed.sh <seed_dir> <seed_id> <property>
# Confirms a seeded change in a scratch worktree: demo passes on the clean tree, fails with the change, and the
# repository's test suite still passes with the change.  On success stores it under /verif/seeded/<seed_id>/.
set -u
SD=$1; ID=$2; PROP=$3
WT=/tmp/cs_$ID
git -C /repo worktree remove --force $WT >/dev/null 2>&1
git -C /repo worktree add --detach $WT HEAD -q || exit 2
cd $WT
PYTHONPATH=$WT /venv/bin/python $SD/demo.py >/tmp/cs_$ID.clean.log 2>&1; CLEAN=$?
git apply $SD/patch.diff || { echo "$ID: patch does not apply"; git -C /repo worktree remove --force $WT; exit 2; }
PYTHONPATH=$WT /venv/bin/python $SD/demo.py >/tmp/cs_$ID.mut.log 2>&1; MUT=$?
PYTHONPATH=$WT /venv/bin/python -m pytest -q -p no:cacheprovider --timeout=900 -x >/tmp/cs_$ID.suite.log 2>&1; SUITE=$?
SUMMARY=$(tail -1 /tmp/cs_$ID.suite.log)
cd /; git -C /repo worktree remove --force $WT
echo "$ID: demo clean exit=$CLEAN, demo with change exit=$MUT, suite exit=$SUITE ($SUMMARY)"
if [ $CLEAN -eq 0 ] && [ $MUT -ne 0 ] && [ $SUITE -eq 0 ]; then
  mkdir -p /verif/seeded/$ID
  cp $SD/patch.diff $SD/demo.py /verif/seeded/$ID/
  [ -f $SD/notes.md ] && cp $SD/notes.md /verif/seeded/$ID/notes.md
  python3 - <<PY
import json
json.dump({"seed": "$ID", "property": "$PROP",
           "needs_to_manifest": open("$SD/notes.md").read()[:1500] if __import__("os").path.exists("$SD/notes.md") else "",
           "confirmed": {"demo_on_clean_tree_exit": $CLEAN, "demo_with_change_exit": $MUT, "suite_with_change_exit": $SUITE, "suite_summary": "$SUMMARY"},
           "commands": ["git worktree add --detach /tmp/cs_$ID HEAD", "PYTHONPATH=/tmp/cs_$ID /venv/bin/python demo.py   # exit 0 expected",
                        "git apply patch.diff", "PYTHONPATH=/tmp/cs_$ID /venv/bin/python demo.py   # exit 1 expected",
                        "PYTHONPATH=/tmp/cs_$ID /venv/bin/python -m pytest -q -p no:cacheprovider --timeout=900 -x", "git worktree remove --force /tmp/cs_$ID"],
           "detected_by": None}, open("/verif/seeded/$ID/meta.json", "w"), indent=1)
PY
  rm -f /tmp/cs_$ID.*.log
  exit 0
fi
exit 1
