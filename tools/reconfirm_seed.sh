#!/bin/bash
# reconfirm_seed.sh <seed_id>: re-checks a stored seed against the current /repo HEAD in a scratch worktree
# (patch applies; demo passes on the clean tree and fails with the change; suite passes with the change).
ID=$1; SD=/verif/seeded/$ID; WT=/tmp/rc_$ID
git -C /repo worktree remove --force $WT >/dev/null 2>&1
git -C /repo worktree add --detach $WT HEAD -q || exit 2
cd $WT
PYTHONPATH=$WT timeout 600 /venv/bin/python $SD/demo.py >/dev/null 2>&1; CLEAN=$?
if ! git apply $SD/patch.diff 2>/dev/null; then echo "$ID: PATCH-DOES-NOT-APPLY (demo clean=$CLEAN)"; cd /; git -C /repo worktree remove --force $WT; exit 1; fi
PYTHONPATH=$WT timeout 600 /venv/bin/python $SD/demo.py >/dev/null 2>&1; MUT=$?
SUITE=$(PYTHONPATH=$WT /venv/bin/python -m pytest -q -p no:cacheprovider --timeout=900 -x 2>&1 | tail -1)
cd /; git -C /repo worktree remove --force $WT
ok=OK; { [ $CLEAN -ne 0 ] || [ $MUT -eq 0 ] || [[ "$SUITE" != 306\ passed* ]]; } && ok=STALE
echo "$ID: $ok demo clean=$CLEAN with-change=$MUT suite[$SUITE]"
