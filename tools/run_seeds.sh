#!/bin/bash
# Applies every confirmed seeded change to /repo (git apply), runs the check of its property (and of related ones),
# undoes it (git checkout -- .) and records which checks reported a violation.
cd /verif
REPO=${REPO:-/repo}
for d in ${SEEDS:-seeded/*/}; do
  id=$(basename $d); prop=${id%_*}
  if grep -q '"obsolete"' /verif/$d/meta.json; then echo "$id: obsolete (see meta.json)"; continue; fi
  git -C $REPO apply /verif/$d/patch.diff 2>/dev/null || { echo "$id: patch does not apply"; continue; }
  out=$(VERIF_REPO=$REPO timeout 1800 ./check $prop 2>&1); rc=$?
  git -C $REPO checkout -- .
  viol=$(echo "$out" | grep -c '^VIOLATION')
  first=$(echo "$out" | grep '^VIOLATION' | head -2 | sed 's/.*replay=//' | tr '\n' ' ')
  echo "$id: check $prop exit=$rc violations=$viol $first"
  python3 - "$d" "$prop" "$rc" "$viol" "$first" <<'PY'
import json, sys
d, prop, rc, viol, first = sys.argv[1:6]
m = json.load(open(d + "meta.json"))
m["detected_by"] = {"check": prop, "exit": int(rc), "violations": int(viol), "first_replays": first.split()}
json.dump(m, open(d + "meta.json", "w"), indent=1)
PY
done
