#!/usr/bin/env python3
"""Developer tool (never run by a check): records the currently failing class-level obligations, each with the exact
defective output observed on the pinned tree, under the finding that explains it.  A check treats a failing obligation
as the known finding only if the output is still exactly the recorded one."""
import json, subprocess, sys, os, re
ROOT = os.path.dirname(os.path.dirname(os.path.abspath(__file__)))
RULES = [
    (r"^K/BasicBinaryExp/", "KF-C14-BinaryExp-always-string-kinded"),
    (r"^V/BasicVarptrExpression/", "KF-C05-VARPTR-operand-not-traversed"),
    (r"^calls/A1=VARPTR", "KF-C05-VARPTR-operand-not-traversed"),
    (r"^T/BasicIfElse/pre=0,elif=[12],else=0", "KF-C02-ELSEIF-chain-without-ELSE-never-exits"),
    (r"^T/BasicIfElse/pre=2", "KF-C05-IfElse-drops-hoisted-calls"),
    (r"^[TV]/BasicReadStatement/", "KF-C05-READ-targets-not-traversed"),
    (r"^V/BasicInputStatement/", "KF-C05-INPUT-operands-not-traversed"),
    (r"^if-forms/elif=[123],else=0", "KF-C02-ELSEIF-chain-without-ELSE-never-exits"),
    (r"^function/joystk_to_statement/", "KF-C04-JOYSTK-call-passes-2-of-6-arguments"),
    (r"^layout/CLEAR200$", "KF-C08-CLEAR-comment-keeps-source-layout"),
    (r"^layout/A1=&HFF$", "KF-C08-blank-inside-hex-literal"),
    (r"^layout/A1=10$", "KF-C08-blank-inside-decimal-literal"),
    (r"^layout/A1=1\.5E\+3$", "KF-C08-blank-inside-decimal-literal"),
    (r"^rule-kind/exp/A1\*2$", "KF-C14-BinaryExp-always-string-kinded"),
    (r"^declared/scalar DIMmed in two statements", "KF-C10-scalar-DIMmed-in-two-statements"),
    (r"^declared/(argument of|READ target|INPUT target|LINE INPUT target|subscript of a READ target)", "KF-C10-names-in-untraversed-positions-undeclared"),
    (r"^user-text/comment that mentions a call", "KF-C13-RUN-in-comment-counts-as-a-call"),
    (r"^(helpers/)?string/counts -2\.\.255, declared capacity 32$", "KF-C20-STRING$-result-cut-to-declared-capacity"),
    (r"^kinds/ecb_joystk/", "KF-C04-JOYSTK-call-passes-2-of-6-arguments"),
    (r"^kinds/ecb_hprint/numeric item", "KF-C14-HPRINT-numeric-item-gets-numeric-temporary"),
]
src = sys.argv[1]
d = json.load(open(src))["obligations"]
kf = json.load(open(os.path.join(ROOT, "known_findings.json")))
cf = kf.setdefault("class_findings", {})
for o in d:
    if o["ok"]:
        continue
    fid = next((f for r, f in RULES if re.search(r, o["id"])), None)
    if fid is None:
        print("UNEXPLAINED", o["id"]); continue
    cf[o["id"]] = dict(finding=fid, recorded_actual=o["actual"])
json.dump(kf, open(os.path.join(ROOT, "known_findings.json"), "w"), indent=1, ensure_ascii=False)
print(len(cf), "class-level entries")
