#!/bin/bash
# Applies every harmless edit of selftest/harmless to /repo, confirms the repository's suite still passes, runs the
# checks it could affect (all must stay green), and undoes it.
cd /verif
REPO=${REPO:-/repo}
declare -A PROPS=( [rat_rename_locals]="C17 C18 C19" [hrs_rename_locals]="C16 C19" [mge_rename_and_augassign]="C16 C17 C19" [cm3_rename_and_reorder]="C17 C19"
  [max_rename_reformat]="C19" [vef_unsquash_rename]="C17 C19" [pix_rename]="C19" [util_docstrings]="C16 C19"
  [elements_refactor]="C01 C02 C03 C04 C05 C06 C07 C10 C14" [visitors_refactor]="C02 C05 C06 C10 C11 C12" [parser_refactor]="C04 C08 C09 C14 C15"
  [compiler_refactor]="C06 C11 C12 C13 C15" [procbank_refactor]="C12 C13 C15" [elements_shared_default_colour]="C04 C05 C12 C14" [elements_paren_around_signed_operand]="C01 C05 C07" [cm3_pages_local]="C16 C17 C18 C19" [compiler_pass_reorder]="C03 C04 C05 C06 C11 C12 C13 C15" [initializer_and_assignment_refactor]="C01 C02 C03 C05 C07 C09 C10 C11" )
for f in ${ONLY:-selftest/harmless/*.diff}; do
  name=$(basename $f .diff)
  git -C $REPO apply /verif/$f || { echo "$name: does not apply"; continue; }
  suite=$(cd $REPO && PYTHONPATH=$REPO /venv/bin/python -m pytest -q -p no:cacheprovider --timeout=900 -x 2>&1 | tail -1)
  res=""
  for p in ${PROPS[$name]}; do
    out=$(VERIF_REPO=$REPO timeout 3000 ./check $p 2>&1); rc=$?
    res="$res $p=$rc"
    [ $rc -ne 0 ] && echo "$out" | egrep "^VIOLATION|^CHECKER|^UNDECIDED" | head -3 | cut -c1-260
  done
  git -C $REPO checkout -- .
  echo "$name: suite[$suite] $res"
done
