"""Goal-directed quantifier instantiation.

Turns `hyps |= goal` with universally quantified hypotheses (loop invariants over arrays, definitional
array axioms, the byte-range axiom of the input) into a quantifier-free query:

  * the goal is split into conjuncts; universal conjuncts are skolemised;
  * every single-variable universal hypothesis  forall j. B(j)  is instantiated at the skolem constants and
    at the solutions j = (t - c)/a of  a*j + c = t  for every array index pattern a*j + c occurring in B and
    every ground array index t occurring in the problem (a few rounds, so that instances feed each other);
  * instantiation only ever *weakens* the hypotheses, so `unsat` of the ground query is a proof; `sat`
    yields a candidate model that the caller must confirm by replay (or retry with the full quantified query).
"""
import z3

MAX_INSTANCES = 6000
ROUNDS = 3


def flatten_and(e, out):
    if z3.is_and(e):
        for c in e.children():
            flatten_and(c, out)
    else:
        out.append(e)


def _contains_var(e, cache):
    k = e.get_id()
    if k in cache:
        return cache[k]
    if z3.is_var(e):
        r = True
    elif z3.is_quantifier(e):
        r = False
    else:
        r = any(_contains_var(c, cache) for c in e.children())
    cache[k] = r
    return r


def _linear(idx, cache):
    """idx = a*Var + c with c ground -> (a, c) ; None otherwise."""
    if z3.is_var(idx):
        return 1, z3.IntVal(0)
    if not _contains_var(idx, cache):
        return 0, idx
    if z3.is_add(idx):
        a_tot, c_tot = 0, None
        for ch in idx.children():
            r = _linear(ch, cache)
            if r is None:
                return None
            a, c = r
            a_tot += a
            c_tot = c if c_tot is None else c_tot + c
        return a_tot, c_tot
    if z3.is_sub(idx) and idx.num_args() == 2:
        r1, r2 = _linear(idx.arg(0), cache), _linear(idx.arg(1), cache)
        if r1 is None or r2 is None:
            return None
        return r1[0] - r2[0], r1[1] - r2[1]
    if z3.is_mul(idx) and idx.num_args() == 2:
        x, y = idx.arg(0), idx.arg(1)
        if z3.is_int_value(x):
            r = _linear(y, cache)
            if r is None:
                return None
            return x.as_long() * r[0], x.as_long() * r[1]
        if z3.is_int_value(y):
            r = _linear(x, cache)
            if r is None:
                return None
            return y.as_long() * r[0], y.as_long() * r[1]
    if z3.is_app_of(idx, z3.Z3_OP_UMINUS):
        r = _linear(idx.arg(0), cache)
        if r is None:
            return None
        return -r[0], -r[1]
    return None


_BASES = {}
_GROUND = {}
_KEEP = []


def bases_of(arr):
    k = arr.get_id()
    r = _BASES.get(k)
    if r is None:
        out = set()
        _bases(arr, out)
        r = frozenset(out)
        _BASES[k] = r
        _KEEP.append(arr)
    return r


def ground_indices(e):
    """memoized: {(base array id, index id): index term} for all ground selects in e"""
    k = e.get_id()
    r = _GROUND.get(k)
    if r is None:
        r = {}
        _scan(e, r, [], {}, set(), False)
        _GROUND[k] = r
        _KEEP.append(e)
    return r


def _bases(arr, out):
    """Base array symbols of an array expression (Store chains stripped, both arms of ite)."""
    while z3.is_store(arr):
        arr = arr.arg(0)
    if z3.is_app_of(arr, z3.Z3_OP_ITE):
        _bases(arr.arg(1), out)
        _bases(arr.arg(2), out)
    elif z3.is_const(arr) or z3.is_var(arr):
        out.add(arr.get_id())
    elif z3.is_K(arr):
        pass
    else:
        out.add(arr.get_id())


def _scan(e, ground_idx, patterns, cache, seen, under_quant):
    """Collect ground select indices (keyed by base array) and, inside a quantifier body, index patterns
    a*Var(0)+c together with the base arrays they index."""
    k = (e.get_id(), under_quant)
    if k in seen:
        return
    seen.add(k)
    if z3.is_quantifier(e):
        return  # nested quantifiers are left alone
    if z3.is_select(e):
        idx = e.arg(1)
        bs = bases_of(e.arg(0))
        if _contains_var(idx, cache):
            lin = _linear(idx, cache)
            if lin is not None and lin[0] in (1, -1):
                patterns.append((lin[0], lin[1], frozenset(bs)))
        else:
            for b in bs:
                ground_idx[(b, idx.get_id())] = idx
    for c in e.children():
        _scan(c, ground_idx, patterns, cache, seen, under_quant)


def _expand_nested(f, sk_terms):
    """An instance of a two-level universal hypothesis  forall j. R(j) -> forall k. B(j, k)  is again universal in k.
    It is instantiated at the skolem constants of the goal (a weakening, hence sound) instead of being handed to
    the solver as a quantifier inside the otherwise ground query."""
    def is_q1(e):
        return z3.is_quantifier(e) and e.is_forall() and e.num_vars() == 1 and e.var_sort(0) == z3.IntSort()
    if is_q1(f):
        return [z3.substitute_vars(f.body(), t) for t in sk_terms]
    if z3.is_implies(f) and is_q1(f.arg(1)):
        return [z3.Implies(f.arg(0), z3.substitute_vars(f.arg(1).body(), t)) for t in sk_terms]
    return [f]


class Inst:
    def __init__(self):
        self.n_sk = 0

    def skolem(self, q):
        consts = []
        for i in range(q.num_vars()):
            self.n_sk += 1
            consts.append(z3.Const("sk!%d!%s" % (self.n_sk, q.var_name(i)), q.var_sort(i)))
        # substitute_vars: Var(0) is the innermost (last) bound variable
        body = z3.substitute_vars(q.body(), *reversed(consts))
        return body, consts

    def prepare_goal(self, goal):
        """Returns list of (extra_hyps, ground_goal, skolems)."""
        out = []
        conj = []
        flatten_and(goal, conj)
        for g in conj:
            extra = []
            sk = []
            while True:
                if z3.is_implies(g):
                    extra.append(g.arg(0))
                    g = g.arg(1)
                    continue
                if z3.is_quantifier(g) and g.is_forall():
                    g, cs = self.skolem(g)
                    sk += cs
                    continue
                break
            if z3.is_or(g) and g.num_args() == 2 and z3.is_not(g.arg(0)) and z3.is_and(g.arg(1)):
                extra.append(g.arg(0).arg(0))
                g = g.arg(1)
            if z3.is_and(g):
                sub = []
                flatten_and(g, sub)
                for s in sub:
                    for item in self.prepare_goal(s):
                        out.append((extra + item[0], item[1], sk + item[2]))
            else:
                out.append((extra, g, sk))
        return out


def ground_query(hyps, goal_item, inst):
    """Build the quantifier-free hypothesis list for one prepared goal."""
    extra, g, skolems = goal_item
    flat = []
    for h in list(hyps) + list(extra):
        flatten_and(h, flat)
    ground, quants = [], []
    for h in flat:
        if z3.is_quantifier(h) and h.is_forall() and h.num_vars() == 1 and h.var_sort(0) == z3.IntSort():
            quants.append(h)
        elif z3.is_not(h) and z3.is_quantifier(h.arg(0)) and h.arg(0).is_forall():
            body, cs = inst.skolem(h.arg(0))
            ground.append(z3.Not(body))
            skolems = skolems + cs
        elif z3.is_quantifier(h):
            quants.append(h)  # kept for the fall-back only
        else:
            ground.append(h)
    cache = {}
    qinfo = []
    for q in quants:
        if not (q.is_forall() and q.num_vars() == 1 and q.var_sort(0) == z3.IntSort()):
            continue
        pats = []
        _scan(q.body(), {}, pats, cache, set(), True)
        # dedupe patterns by (a, str(c))
        uniq = {}
        for a, c, bs in pats:
            for b in bs:
                uniq[(a, z3.simplify(c).sexpr(), b)] = (a, z3.simplify(c), b)
        qinfo.append((q, list(uniq.values())))
    done = set()
    instances = []
    neg_goal = z3.Not(g)
    sk_terms = [s for s in skolems if s.sort() == z3.IntSort()]
    total = 0

    def n_selects(e, seen):
        if e.get_id() in seen:
            return 0
        seen.add(e.get_id())
        return (1 if z3.is_select(e) else 0) + sum(n_selects(c, seen) for c in e.children())
    small = {q.get_id(): n_selects(q.body(), set()) <= 3 for q, _ in qinfo}
    frontier = ground + [neg_goal]
    for rnd in range(ROUNDS):
        gidx = {}
        for e in frontier:
            gidx.update(ground_indices(e))
        new = []
        for q, pats in qinfo:
            if rnd > 0 and not small[q.get_id()]:
                continue  # big bodies (invariants) are only matched against the original problem's terms
            cands = []
            if rnd == 0:
                cands += sk_terms
            for (b, _), t in gidx.items():
                for a, c, pb in pats:
                    if pb != b:
                        continue
                    cands.append(t - c if a == 1 else c - t)
            for cand in cands:
                cs = z3.simplify(cand)
                key = (q.get_id(), cs.get_id())
                if key in done:
                    continue
                done.add(key)
                for inst_f in _expand_nested(z3.substitute_vars(q.body(), cs), sk_terms):
                    new.append(inst_f)
                total += 1
                if total >= MAX_INSTANCES:
                    break
            if total >= MAX_INSTANCES:
                break
        if not new:
            break
        instances += new
        frontier = new
        if total >= MAX_INSTANCES:
            break
    return ground + instances, g, len(instances)
