"""Driver: contexts, unit verification (path DFS), closure/unit set-up."""
import ast
import os
import time

import z3

from . import solver
from .engine import (BreakEx, ContinueEx, Env, Machine, Obligation, PathEnd, RaiseEx, ReturnEx, Source, SpecFun)
from .values import (Closure, ErrStream, FmtStr, InStream, ListRef, OutStream, SymSeq, Unknown, Unsupported, conc_array,
                     is_z3, simp, to_z3)

MAX_PATHS = 4000


class Context:
    def __init__(self, repo, contracts, specfun_source):
        self.source = Source(repo)
        self.contracts = contracts  # list of contract dicts
        # names the contracts use for ghost state, per module (kept apart from the code's locals, see Source._separate_ghost_names)
        gn = {}
        for c in contracts:
            texts = [c.get("ghost_entry") or ""]
            names = set()
            for spec in (c.get("loops") or {}).values():
                names |= set(spec.get("ghost_vars", []) or [])
                texts += [spec.get("ghost_body_start") or "", spec.get("ghost_body_end") or ""]
            for t in texts:
                try:
                    for n in ast.walk(ast.parse(t)):
                        if isinstance(n, ast.Name) and isinstance(n.ctx, ast.Store):
                            names.add(n.id)
                except SyntaxError:
                    pass
            gn.setdefault(c.get("module"), set()).update(names)
        self.source.ghost_names = gn
        self.specfuns = {}
        tree = ast.parse(specfun_source)
        self.opaque = set()
        self.spec_consts = {}
        for st in tree.body:
            if isinstance(st, ast.Assign) and isinstance(st.targets[0], ast.Name) and st.targets[0].id.isupper() and st.targets[0].id != "OPAQUE":
                val = ast.literal_eval(st.value)
                if isinstance(val, list) and all(isinstance(x, int) for x in val):
                    val = SymSeq(conc_array(val), 0, len(val), "list")
                self.spec_consts[st.targets[0].id] = val
            if isinstance(st, ast.FunctionDef):
                self.specfuns[st.name] = SpecFun(st)
            if isinstance(st, ast.Assign) and isinstance(st.targets[0], ast.Name) and st.targets[0].id == "OPAQUE":
                self.opaque = set(ast.literal_eval(st.value))
        self._spec_cache = {}
        self._ghost_cache = {}
        self._loop_tables = {}
        self._mods = {}
        self._mfuncs = {}
        self._mconsts = {}
        self.inlined = set()
        self.unrolled = set()
        self.assumed = set()
        self.contracts_used = set()
        self.known_ids = set()
        kf = os.path.join(os.path.dirname(os.path.dirname(os.path.abspath(__file__))), "known_findings.json")
        if os.path.exists(kf):
            import json
            self.known = {f["id"]: f for f in json.load(open(kf))["findings"]}
            self.known_ids = set(self.known)
        self.findings_present = {}
        self.findings_absent = set()
        self.ghost_assumes = set()
        self.ob_cache = {}
        self.degraded = set()
        self.objidx_cache = {}
        self._alias = {}
        self.renamed = set()
        bl = os.path.join(os.path.dirname(os.path.dirname(os.path.abspath(__file__))), "baseline_locals.json")
        import json as _json
        self.baseline_locals = _json.load(open(bl)) if os.path.exists(bl) else {}
        self.keep = []

    def patterns_for(self, body, j):
        return None

    def parse_spec(self, text):
        if text not in self._spec_cache:
            self._spec_cache[text] = ast.parse(text.strip(), mode="eval").body
        return self._spec_cache[text]

    def parse_ghost(self, code):
        if code not in self._ghost_cache:
            import textwrap
            self._ghost_cache[code] = ast.parse(textwrap.dedent(code))
        return self._ghost_cache[code]

    def contract_for(self, module, qualname, tag):
        """Contract used at a call site: the one with the caller's tag if it exists, else the untagged ('*') one."""
        best = None
        for c in self.contracts:
            if c["module"] == module and c["qualname"] == qualname:
                if c["tag"] == tag:
                    return c
                if c["tag"] == "*":
                    best = c
        return best

    def module_consts(self, module):
        if module not in self._mconsts:
            self._mconsts[module] = {k: v for k, v in self.source.module_constants(module).items() if isinstance(v, (int, str))}
        return self._mconsts[module]

    def module_globals(self, module):
        out = set()
        for st in self.source.module(module).body:
            if isinstance(st, ast.Assign):
                for t in st.targets:
                    if isinstance(t, ast.Name):
                        out.add(t.id)
            elif isinstance(st, (ast.Import, ast.ImportFrom)):
                for a in st.names:
                    out.add((a.asname or a.name).split(".")[0])
        return out

    def module_funcs(self, module):
        """Module-level functions visible in `module`: its own defs and `from coco.util import ...` names."""
        if module not in self._mfuncs:
            out = {}
            tree = self.source.module(module)
            for st in tree.body:
                if isinstance(st, ast.ImportFrom) and st.module and st.module.startswith("coco."):
                    for a in st.names:
                        try:
                            fn = self.source.find_function(st.module, a.name)
                        except Unsupported:
                            continue
                        out[a.asname or a.name] = Closure(fn, ModuleEnv(st.module), a.name)
            for name in self._toplevel_defs(tree.body):
                fn = self.source.find_function(module, name)
                out[name] = Closure(fn, ModuleEnv(module), name)
            self._mfuncs[module] = out
        return self._mfuncs[module]

    def _toplevel_defs(self, body):
        names = []
        for st in body:
            if isinstance(st, ast.FunctionDef):
                names.append(st.name)
            elif isinstance(st, ast.If):
                names += self._toplevel_defs(st.body) + self._toplevel_defs(st.orelse)
        return names

    def loop_table(self, module, qualname):
        """id(loop node) -> ordinal, loops of that function in source order, nested defs excluded."""
        key = (module, qualname)
        if key not in self._loop_tables:
            fn = self.source.find_function(module, qualname)
            table = {}

            def walk(stmts):
                for st in stmts:
                    if isinstance(st, (ast.FunctionDef, ast.ClassDef)):
                        continue
                    if isinstance(st, (ast.For, ast.While)):
                        table[id(st)] = len(table)
                    for field in ("body", "orelse", "finalbody"):
                        sub = getattr(st, field, None)
                        if isinstance(sub, list):
                            walk(sub)
            walk(fn.body)
            self._loop_tables[key] = table
        return self._loop_tables[key]

    def _closure_nodes(self, module, qualname):
        """All function defs reachable by name from the function (its nested defs and those of enclosing defs)."""
        out = {}
        parts = qualname.split(".")
        for k in range(1, len(parts) + 1):
            fn = self.source.find_function(module, ".".join(parts[:k]))
            for st in ast.walk(fn):
                if isinstance(st, ast.FunctionDef) and st is not fn:
                    out.setdefault(st.name, []).append(st)
        return out

    def loop_mods(self, module, qualname, loop):
        """(assigned names, mutated list names, touches input stream, touches output stream) of a loop body,
        syntactically, following calls to local closures."""
        key = (module, qualname, id(loop))
        if key in self._mods:
            return self._mods[key]
        closures = self._closure_nodes(module, qualname)
        names, lists = set(), set()
        flags = {"in": False, "out": False}
        seen = set()

        def scan(nodes, top):
            for n in nodes:
                for x in ast.walk(n):
                    if isinstance(x, ast.Name) and isinstance(x.ctx, ast.Store) and top:
                        names.add(x.id)
                    elif isinstance(x, ast.Subscript) and isinstance(x.ctx, ast.Store) and isinstance(x.value, ast.Name):
                        lists.add(x.value.id)
                    elif isinstance(x, ast.AugAssign) and isinstance(x.target, ast.Name):
                        lists.add(x.target.id)
                        if top:
                            names.add(x.target.id)
                    elif isinstance(x, ast.Call):
                        if isinstance(x.func, ast.Attribute):
                            if x.func.attr == "read":
                                flags["in"] = True
                            elif x.func.attr == "write":
                                flags["out"] = True
                            elif x.func.attr in ("append", "extend", "insert", "pop", "clear", "sort", "reverse", "remove") and isinstance(x.func.value, ast.Name):
                                lists.add(x.func.value.id)
                        elif isinstance(x.func, ast.Name) and x.func.id in closures and x.func.id not in seen:
                            seen.add(x.func.id)
                            for fn in closures[x.func.id]:
                                scan(fn.body, False)
        scan(loop.body, True)
        if isinstance(loop, ast.While):
            scan([loop.test], True)
        # names assigned inside nested function defs of the body are not the loop's (none in the subset)
        res = (names, lists, flags["in"], flags["out"])
        self._mods[key] = res
        return res

    # ---- renamed locals: contracts name locals of the pinned tree; a pure rename is followed through the
    # "definition signature" of the variable (shapes of everything assigned to it, local names erased)
    def local_signatures(self, module, qualname):
        fn = self.source.find_function(module, qualname)
        locals_ = set()
        for n in ast.walk(fn):
            if isinstance(n, ast.Name) and isinstance(n.ctx, ast.Store):
                locals_.add(n.id)
            if isinstance(n, ast.arg):
                locals_.add(n.arg)

        class Eraser(ast.NodeTransformer):
            def visit_Name(self, node):
                return ast.copy_location(ast.Name(id="_" if node.id in locals_ else node.id, ctx=ast.Load()), node)
        import copy

        def shape(e):
            return ast.dump(Eraser().visit(copy.deepcopy(e)))
        sig = {}
        for k, a in enumerate(fn.args.args):
            sig.setdefault(a.arg, []).append("param#%d" % k)
        for n in ast.walk(fn):
            if isinstance(n, ast.Assign):
                for t in n.targets:
                    for nm in ast.walk(t):
                        if isinstance(nm, ast.Name) and isinstance(nm.ctx, ast.Store):
                            sig.setdefault(nm.id, []).append("=" + shape(n.value))
            elif isinstance(n, ast.AugAssign) and isinstance(n.target, ast.Name):
                sig.setdefault(n.target.id, []).append(type(n.op).__name__ + "=" + shape(n.value))
            elif isinstance(n, ast.For) and isinstance(n.target, ast.Name):
                sig.setdefault(n.target.id, []).append("for:" + shape(n.iter))
            elif isinstance(n, ast.comprehension) and isinstance(n.target, ast.Name):
                sig.setdefault(n.target.id, []).append("comp:" + shape(n.iter))
            elif isinstance(n, ast.FunctionDef) and n is not fn:
                sig.setdefault(n.name, []).append("def")
        return {k: sorted(vs) for k, vs in sig.items()}

    def alias_for(self, module, qualname, name):
        key = (module, qualname, name)
        if key in self._alias:
            return self._alias[key]
        res = None
        base = self.baseline_locals.get("%s.%s" % (module, qualname), {})
        if name in base:
            try:
                cur = self.local_signatures(module, qualname)
            except Unsupported:
                cur = {}
            if name not in cur:
                cands = [k for k, v in cur.items() if v == base[name] and k not in base]
                if len(cands) == 1:
                    res = cands[0]
                    self.renamed.add("%s.%s: contract local `%s` is `%s` in the tree under test" % (module, qualname, name, res))
        self._alias[key] = res
        return res

    def loop_len_mods(self, module, qualname, loop):
        """Names of lists whose length may change in the loop (append/extend/+=)."""
        out = set()
        for x in ast.walk(loop):
            if isinstance(x, ast.Call) and isinstance(x.func, ast.Attribute) and x.func.attr in ("append", "extend", "insert", "pop", "clear", "remove") and isinstance(x.func.value, ast.Name):
                out.add(x.func.value.id)
            if isinstance(x, ast.AugAssign) and isinstance(x.target, ast.Name):
                out.add(x.target.id)
        return out


class ModuleEnv(Env):
    def __init__(self, module):
        super().__init__(None, "")
        self.module = module


def _param_value(m, name, kind, unit):
    if kind == "instream":
        return InStream()
    if kind == "outstream":
        return OutStream()
    if kind == "int":
        return z3.Int(name)
    if kind == "bool":
        return z3.Bool(name)   # forks lazily, where the code first tests it
    if kind == "optint":
        c = m.choose(2, name + ".isNone")
        return z3.Int(name) if c == 0 else None
    if kind == "bytes_list":
        # a mutable sequence of byte values (bytearray / list of ints 0..255)
        ln = z3.Int(name + "_len")
        m.assume(ln >= 0)
        s = SymSeq(z3.Array(name, z3.IntSort(), z3.IntSort()), 0, ln, "list")
        j = z3.Int("j!" + name)
        m.assume(z3.ForAll([j], z3.And(s.arr[j] >= 0, s.arr[j] <= 255)), qf_also=False)
        m.byte_lemma_arrays.append(s.arr)
        return m.new_list(s)
    if kind == "bytes" or kind == "list" or kind == "str":
        ln = z3.Int(name + "_len")
        m.assume(ln >= 0)
        s = SymSeq(z3.Array(name, z3.IntSort(), z3.IntSort()), 0, ln, kind)
        if kind == "bytes":
            j = z3.Int("j!" + name)
            m.assume(z3.ForAll([j], z3.And(s.arr[j] >= 0, s.arr[j] <= 255)), qf_also=False)
            m.byte_lemma_arrays.append(s.arr)
        if kind == "list":
            return m.new_list(s)
        return s
    if isinstance(kind, tuple) and kind[0] == "enum":
        vals = kind[1]
        c = m.choose(len(vals), name)
        return vals[c]
    if isinstance(kind, tuple) and kind[0] == "lazyenum":
        x = z3.Int(name)
        m.assume(z3.Or([x == v for v in kind[1]]))
        return x
    if isinstance(kind, tuple) and kind[0] == "const":
        return kind[1]
    raise Unsupported("parameter kind %r" % (kind,))


def run_path(ctx, unit, prefix):
    """Execute one path. Returns (machine, outcome) where outcome describes how the path ended."""
    m = Machine(ctx, unit, prefix)
    if unit.get("arbitrary_entry_streams"):
        m.out = z3.Array("out0", z3.IntSort(), z3.IntSort())
        m.n = z3.Int("n0")
        m.assume(m.n >= 0)
        m.pos = z3.Int("pos0")
        m.assume(z3.And(m.pos >= 0, m.pos <= m.L))
    m.entry_out, m.entry_n, m.entry_pos = m.out, m.n, m.pos
    fn = ctx.source.find_function(unit["module"], unit["qualname"])
    # environment: enclosing closures for nested units
    env = Env(None, unit["qualname"])
    outer = Env(None, ".".join(unit["qualname"].split(".")[:-1]))
    env.parent = outer
    outcome = None
    try:
        for name, kind in unit.get("free", {}).items():
            outer.vars[name] = _param_value(m, name, kind, unit)
        # sibling closures of a nested unit (e.g. dump calls dmp500)
        parts = unit["qualname"].split(".")
        if len(parts) > 1:
            parent_fn = ctx.source.find_function(unit["module"], ".".join(parts[:-1]))
            for st in ast.walk(parent_fn):
                if isinstance(st, ast.FunctionDef) and st is not parent_fn and st.name not in outer.vars:
                    outer.vars[st.name] = Closure(st, outer, ".".join(parts[:-1]) + "." + st.name)
        names = [a.arg for a in fn.args.args]
        params = unit.get("params", {})
        pnames = list(params)
        if len(names) != len(pnames):
            raise Unsupported("contract of %s declares %d parameters, the function has %d" % (unit["name"], len(pnames), len(names)))
        for nme, cname in zip(names, pnames):
            # parameters are matched by position; the solver symbol keeps the contract's name (replay reads it)
            env.vars[nme] = _param_value(m, cname, params[cname], unit)
            if nme != cname:
                ctx._alias[(unit["module"], unit["qualname"], cname)] = nme
                ctx.renamed.add("%s: parameter `%s` is `%s` in the tree under test" % (unit["name"], cname, nme))
        m.entry_env = env
        if unit.get("ghost_entry"):
            m.run_ghost(unit["ghost_entry"], env)
        for r in unit.get("requires", []):
            m.assume(to_z3(m.truthy(m.eval_spec(r, env))))
        for fname, ftext in unit.get("facts", {}).items():
            q = to_z3(m.truthy(m.eval_spec(ftext, env)))
            if not (z3.is_quantifier(q) and q.is_forall() and q.num_vars() == 1):
                raise Unsupported("fact %s is not a single-variable forall" % fname)
            m.facts[fname] = q
            m.assume(q, qf_also=False)
        m.lemmas(unit.get("lemmas"), env, "entry")
        # vacuity: the precondition must be satisfiable on this entry case
        if not m.feas(None):
            raise PathEnd()
        m.entry_feasible = True
        try:
            m.exec_block(fn.body, env)
            outcome = ("return", None)
        except ReturnEx as r:
            outcome = ("return", r.value)
        except RaiseEx as r:
            outcome = ("raise", r.exc, r.info)
        except (BreakEx, ContinueEx):
            raise Unsupported("break/continue outside a loop")
        check_exit(m, unit, env, outcome)
    except PathEnd:
        outcome = outcome or ("end",)
    return m, outcome


def check_exit(m, unit, env, outcome):
    if outcome[0] == "return":
        env.vars["result"] = outcome[1]
        for cl in unit.get("ensures", []):
            when = cl.get("when")
            w = m.truthy(m.eval_spec(when, env)) if when else True
            if w is False:
                continue
            g = m.truthy(m.eval_spec(cl["post"], env))
            if when:
                g = simp(z3.Implies(to_z3(w), to_z3(g)))
            m.oblige("post." + cl["id"], g, detail=cl["post"], known=cl.get("known"), env=env)
        for exc, cond in unit.get("raises_when", []):
            m.oblige("raises_when.%s.not-on-return" % exc, simp(z3.Not(to_z3(m.truthy(m.eval_spec(cond, env))))), detail=cond)
        if "writes" in unit or "returns" in unit:
            check_effect_contract(m, unit, env, outcome[1])
    else:
        exc = outcome[1]
        env.vars["exit_code"] = outcome[2] if exc == "SystemExit" and isinstance(outcome[2], int) else (1 if exc == "SystemExit" else 0)
        matched = False
        for exc2, cond in unit.get("raises_when", []):
            if exc2 == exc:
                matched = True
                m.oblige("raises_when.%s.only-if" % exc, m.truthy(m.eval_spec(cond, env)), detail=cond)
        for cl in unit.get("raises", []):
            if cl["exc"] in (exc, "*"):
                matched = True
                g = m.truthy(m.eval_spec(cl["allowed"], env))
                m.oblige("raises.%s.%s" % (cl["id"], exc), g, detail="%s allowed only if %s" % (exc, cl["allowed"]), known=cl.get("known"), env=env)
        if not matched:
            m.oblige("raises.unexpected.%s" % exc, False, detail="no raises clause admits %s" % exc)


def check_effect_contract(m, unit, env, result):
    """Callee-side check of a `writes`/`returns` contract: the body appended exactly those bytes, returned that value."""
    n0 = m.entry_n
    out0 = m.entry_out
    writes = [m.num(m.eval_spec(w, env)) for w in unit.get("writes", [])]
    exp = out0
    for i, w in enumerate(writes):
        exp = z3.Store(exp, simp(n0 + i), to_z3(w))
    m.oblige("effect.out-length", simp(to_z3(m.n) == n0 + len(writes)))
    m.oblige("effect.out-content", simp(m.out == exp))
    m.oblige("effect.pos-unchanged", simp(to_z3(m.pos) == to_z3(m.entry_pos)))
    if "returns" in unit:
        expv = m.eval_spec(unit["returns"], env)
        if isinstance(expv, (SymSeq, ListRef, str, bytes, FmtStr)) or isinstance(result, (SymSeq, ListRef, str, bytes, FmtStr)):
            g = m.seq_eq(expv, result)
            k1 = expv.kind if isinstance(expv, SymSeq) else None
            k2 = result.kind if isinstance(result, SymSeq) else ("str" if isinstance(result, str) else "bytes" if isinstance(result, bytes) else None)
            if k1 and k2 and k1 != k2:
                g = False
        elif result is None or expv is None:
            g = result is None and expv is None
        else:
            g = simp(to_z3(m.num(expv)) == to_z3(m.num(result)))
        m.oblige("effect.result", g, detail=unit["returns"])


def verify_unit(ctx, unit, log=None):
    """Enumerate all paths of a unit.  Returns dict(obligations=[...], paths=int, entry_cases=int, error=None|str)."""
    t0 = time.time()
    prefix = []
    obligations = []
    paths = 0
    feasible_entries = 0
    error = None
    outcomes = {}
    while True:
        try:
            m, outcome = _run(ctx, unit, prefix)
        except Unsupported as e:
            error = "unsupported: %s" % e
            break
        paths += 1
        if getattr(m, "entry_feasible", False):
            feasible_entries += 1
        obligations.extend(m.obligations)
        outcomes[outcome[0] if outcome else "end"] = outcomes.get(outcome[0] if outcome else "end", 0) + 1
        # backtrack
        trail = m.trail
        k = len(trail) - 1
        while k >= 0 and trail[k][0] + 1 >= trail[k][1]:
            k -= 1
        if k < 0:
            break
        prefix = [c for c, _ in trail[:k]] + [trail[k][0] + 1]
        if paths >= MAX_PATHS:
            error = "path budget exceeded (%d)" % MAX_PATHS
            break
    return dict(unit=unit["name"], tag=unit["tag"], obligations=obligations, paths=paths, feasible_entries=feasible_entries,
                error=error, outcomes=outcomes, seconds=time.time() - t0)


def _run(ctx, unit, prefix):
    return run_path(ctx, unit, prefix)
