"""Solver back ends: z3 (python API) primary, cvc5 CLI secondary for z3's unknowns."""
import os
import subprocess
import tempfile
import time

import z3

Z3_TIMEOUT_MS = int(os.environ.get("PYVC_Z3_TIMEOUT_MS", "10000"))
CVC5_TIMEOUT_S = int(os.environ.get("PYVC_CVC5_TIMEOUT_S", "30"))
FEAS_TIMEOUT_MS = 2000

stats = {"z3_queries": 0, "z3_seconds": 0.0, "cvc5_queries": 0, "cvc5_seconds": 0.0, "feas_queries": 0, "feas_seconds": 0.0}
_feas_cache = {}


_HQ = {}
_HQ_KEEP = []


def has_quant(e):
    k = e.get_id()
    if k not in _HQ:
        _HQ[k] = _has_quant(e)
        _HQ_KEEP.append(e)
    return _HQ[k]


def _has_quant(e):
    seen = set()
    stack = [e]
    while stack:
        x = stack.pop()
        if x.get_id() in seen:
            continue
        seen.add(x.get_id())
        if z3.is_quantifier(x):
            return True
        stack.extend(x.children())
    return False


def feasible(pc_qf, cond):
    """Over-approximate satisfiability of the quantifier-free part of a path condition plus cond.
    'unknown' counts as feasible (only costs an extra path)."""
    key = (tuple(p.get_id() for p in pc_qf), cond.get_id() if cond is not None else None)
    if key in _feas_cache:
        return _feas_cache[key]
    s = z3.Solver()
    s.set("timeout", FEAS_TIMEOUT_MS)
    for p in pc_qf:
        s.add(p)
    if cond is not None:
        s.add(cond)
    t0 = time.time()
    r = s.check()
    stats["feas_queries"] += 1
    stats["feas_seconds"] += time.time() - t0
    res = r != z3.unsat
    _feas_cache[key] = res
    return res


def _cvc5_check(smt2):
    """Returns 'unsat' | 'sat' | 'unknown'."""
    exe = "/usr/bin/cvc5"
    if not os.path.exists(exe):
        return "unknown"
    with tempfile.NamedTemporaryFile("w", suffix=".smt2", delete=False, dir=os.environ.get("XDG_RUNTIME_DIR") or None) as f:
        f.write("(set-logic ALL)\n" + smt2 + "\n(check-sat)\n")
        path = f.name
    t0 = time.time()
    try:
        p = subprocess.run([exe, "--tlimit=%d" % (CVC5_TIMEOUT_S * 1000), path], capture_output=True, text=True, timeout=CVC5_TIMEOUT_S + 5)
        out = p.stdout.strip().splitlines()
        res = out[0].strip() if out else "unknown"
    except Exception:
        res = "unknown"
    finally:
        os.unlink(path)
        stats["cvc5_queries"] += 1
        stats["cvc5_seconds"] += time.time() - t0
    return res if res in ("sat", "unsat") else "unknown"


def _check(assertions, timeout_ms, simple=False, mbqi=True):
    s = z3.SimpleSolver() if simple else z3.Solver()
    s.set("timeout", timeout_ms)
    if not mbqi:
        s.set("mbqi", False)
    for a in assertions:
        s.add(a)
    t0 = time.time()
    r = s.check()
    stats["z3_queries"] += 1
    stats["z3_seconds"] += time.time() - t0
    return r, s


def prove(hyps, goal, timeout_ms=None, use_cvc5=True, plain=False, cheap=False):
    """Budgeted: a first attempt with the normal budget; an `unknown` (solver timeout - typically a loaded machine) is
    retried once with eight times the budget before it is reported, so that verdicts do not flip under load."""
    r = _prove(hyps, goal, timeout_ms, use_cvc5, plain, cheap)
    if r[0] == "unknown" and not cheap:
        stats["retries"] = stats.get("retries", 0) + 1
        r2 = _prove(hyps, goal, (timeout_ms or Z3_TIMEOUT_MS) * 8, use_cvc5, plain, cheap)
        return (r2[0], r2[1], r2[2] + "(retry)", r[3] + r2[3])
    return r


def _prove(hyps, goal, timeout_ms=None, use_cvc5=True, plain=False, cheap=False):
    """Try to show hyps |= goal.  Returns (verdict, model_or_None, backend, seconds).
    verdict: 'proved' | 'refuted' (model of the full query) | 'candidate' (model of the instantiated,
    quantifier-free query: a candidate input to be confirmed by replay) | 'unknown'."""
    from . import instantiate
    t0 = time.time()
    tmo = timeout_ms or Z3_TIMEOUT_MS
    if plain or not (any(has_quant(h) for h in hyps) or has_quant(goal)):
        r, s = _check(list(hyps) + [z3.Not(goal)], tmo)
        if r == z3.unsat:
            return "proved", None, "z3", time.time() - t0
        if r == z3.sat:
            return "refuted", s.model(), "z3", time.time() - t0
        if use_cvc5:
            r2 = _cvc5_on(s)
            if r2 == "unsat":
                return "proved", None, "cvc5", time.time() - t0
        return "unknown", None, "z3", time.time() - t0
    if not has_quant(goal):
        # stage 0: the quantifier-free hypotheses alone often suffice (range facts are instantiated on reads)
        r, s = _check([h for h in hyps if not has_quant(h)] + [z3.Not(goal)], tmo)
        if r == z3.unsat:
            return "proved", None, "z3", time.time() - t0
    inst = instantiate.Inst()
    items = inst.prepare_goal(goal)
    backend = "z3+inst"
    if len(items) > 1:
        # first all conjuncts at once (one instantiation, one query); only a failure is analysed conjunct by conjunct
        extra, conj, sks = [], [], []
        shared_extra = all(len(it[0]) == len(items[0][0]) and all(a.eq(b) for a, b in zip(it[0], items[0][0])) for it in items)
        if shared_extra:
            allitem = (items[0][0], z3.And([it[1] for it in items]), [c for it in items for c in it[2]])
            ghyps, g, ninst = instantiate.ground_query(hyps, allitem, inst)
            r, s = _check(ghyps + [z3.Not(g)], tmo)
            if r == z3.unsat:
                return "proved", None, backend, time.time() - t0
    for item in items:
        ghyps, g, ninst = instantiate.ground_query(hyps, item, inst)
        r, s = _check(ghyps + [z3.Not(g)], tmo)
        if r == z3.unsat:
            continue
        cand = s.model() if r == z3.sat else None
        if cheap:
            return ("candidate" if cand is not None else "unknown"), cand, "z3+inst", time.time() - t0
        # fall back to the full quantified query for this conjunct (E-matching + MBQI)
        full = list(hyps) + list(item[0]) + [z3.Not(item[1])]
        r2, s2 = _check(full, tmo)
        if r2 == z3.unsat:
            backend = "z3"
            continue
        if r2 == z3.sat:
            return "refuted", s2.model(), "z3", time.time() - t0
        if use_cvc5:
            r3 = _cvc5_on(s2)
            if r3 == "unsat":
                backend = "cvc5"
                continue
        if cand is not None:
            return "candidate", cand, "z3+inst", time.time() - t0
        return "unknown", None, "z3", time.time() - t0
    return "proved", None, backend, time.time() - t0


def _cvc5_on(s):
    try:
        smt2 = s.to_smt2()
        lines = [l for l in smt2.splitlines() if not l.startswith("(check-sat") and not l.startswith("(set-info")]
        return _cvc5_check("\n".join(lines))
    except Exception:
        return "unknown"
