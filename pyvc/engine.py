"""pyvc: verification-condition generator / symbolic executor for the integer-sequence subset of
Python used by coco-tools' decoders and helpers.

Reads the *real* source with `ast`, executes one function ("unit") symbolically against a sidecar
contract, calling other contracted functions through their contracts only, cutting every loop at a
sidecar invariant (or unrolling `range(<small constant>)` completely), and emits named obligations that
are discharged by z3 / cvc5.

Paths are enumerated by deterministic re-execution under a decision oracle (DFS over decision
prefixes); each path carries its own path condition.
"""
import ast
import os
import time

import z3

from . import solver
from .values import (Opaque, PngWriter, BoundMethod, Builtin, Closure, ErrStream, FmtStr, InStream, ListRef, ModuleRef, OutStream,
                     SqrtVal, SymSeq, Unknown, Unsupported, conc_array, is_boolish, is_int, is_z3, seq_of_pybytes,
                     seq_of_pystr, simp, to_z3)

UNROLL_MAX = 32


class ReturnEx(Exception):
    def __init__(self, value):
        self.value = value


class BreakEx(Exception):
    pass


class ContinueEx(Exception):
    pass


class RaiseEx(Exception):
    def __init__(self, exc, info=None):
        self.exc = exc
        self.info = info


class PathEnd(Exception):
    pass


class Env:
    def __init__(self, parent=None, qualname=""):
        self.vars = {}
        self.parent = parent
        self.qualname = qualname

    def lookup(self, name):
        e = self
        while e is not None:
            if name in e.vars:
                return e.vars[name]
            e = e.parent
        raise KeyError(name)

    def has(self, name):
        e = self
        while e is not None:
            if name in e.vars:
                return True
            e = e.parent
        return False


# --------------------------------------------------------------------------------------------
# source access


class Source:
    """The real source tree; parsed on every run."""

    def __init__(self, repo):
        self.repo = repo
        self.modules = {}
        self.hashes = {}

    def module(self, modname):
        if modname not in self.modules:
            import hashlib
            path = os.path.join(self.repo, *modname.split(".")) + ".py"
            text = open(path).read()
            self.hashes[os.path.relpath(path, self.repo)] = hashlib.sha256(text.encode()).hexdigest()
            tree = ast.parse(text, filename=path)
            self._separate_ghost_names(modname, tree)
            self.modules[modname] = tree
        return self.modules[modname]

    def _separate_ghost_names(self, modname, tree):
        """Ghost variables of the contracts live in the same environment as the function's locals.  A local of the tree under
        test that happens to carry the name of a ghost variable (the pinned tree has none) would overwrite the ghost value, and
        the contract would then speak about the code's own variable.  Such locals are renamed, consistently in the whole
        module, before anything is verified; the ghost name keeps denoting the contract's value."""
        ghosts = getattr(self, "ghost_names", {}).get(modname, set())
        if not ghosts:
            return
        local = set()
        for fn in ast.walk(tree):
            if isinstance(fn, (ast.FunctionDef, ast.Lambda)):
                for n in ast.walk(fn):
                    if isinstance(n, ast.Name) and isinstance(n.ctx, ast.Store) and n.id in ghosts:
                        local.add(n.id)
                    if isinstance(n, ast.arg) and n.arg in ghosts:
                        local.add(n.arg)
        if not local:
            return
        for n in ast.walk(tree):
            if isinstance(n, ast.Name) and n.id in local:
                n.id = n.id + "__code"
            elif isinstance(n, ast.arg) and n.arg in local:
                n.arg = n.arg + "__code"
            elif isinstance(n, (ast.Nonlocal, ast.Global)):
                n.names = [x + "__code" if x in local else x for x in n.names]
        self.separated = getattr(self, "separated", set()) | {"%s: local `%s` carries the name of a ghost variable of the contract; verified as `%s__code`" % (modname, x, x) for x in local}

    def find_function(self, modname, qualname):
        """qualname like 'convert' or 'convert.dump' (nested defs).  Duplicated definitions (the py2/py3
        arms of util.py) are resolved by constant-evaluating `if sys.version_info < (3,)`: the else arm is live."""
        mod = self.module(modname)
        body = mod.body
        node = None
        for part in qualname.split("."):
            node = self._find_def(body, part)
            if node is None:
                raise Unsupported("cannot attach: %s.%s not found" % (modname, qualname))
            body = node.body
        return node

    def _find_def(self, body, name):
        found = None
        for st in body:
            if isinstance(st, (ast.FunctionDef,)) and st.name == name:
                found = st
            elif isinstance(st, ast.If):
                live = self._live_arm(st)
                if live is not None:
                    r = self._find_def(live, name)
                    if r is not None:
                        found = r
                else:
                    for arm in (st.body, st.orelse):
                        r = self._find_def(arm, name)
                        if r is not None:
                            found = r
        return found

    @staticmethod
    def _live_arm(ifnode):
        t = ifnode.test
        # sys.version_info < (3,)  ==> False on the interpreter that runs the repository
        if (isinstance(t, ast.Compare) and isinstance(t.left, ast.Attribute) and t.left.attr == "version_info"
                and len(t.ops) == 1 and isinstance(t.ops[0], ast.Lt)):
            return ifnode.orelse
        return None

    def module_constants(self, modname):
        """Top-level NAME = <int literal> assignments (e.g. PIXEL_MODE_BR = 1)."""
        out = {}
        for st in self.module(modname).body:
            if isinstance(st, ast.Assign) and len(st.targets) == 1 and isinstance(st.targets[0], ast.Name):
                try:
                    out[st.targets[0].id] = ast.literal_eval(st.value)
                except Exception:
                    pass
        return out


# --------------------------------------------------------------------------------------------


class Obligation:
    __slots__ = ("oid", "verdict", "backend", "seconds", "model", "detail", "pathsig", "hyps", "goal")

    def __init__(self, oid, verdict, backend, seconds, model=None, detail="", pathsig=""):
        self.oid = oid
        self.verdict = verdict  # 'proved' | 'refuted' | 'unknown'
        self.backend = backend
        self.seconds = seconds
        self.model = model
        self.detail = detail
        self.pathsig = pathsig


class Machine:
    """One symbolic execution of one unit along one oracle-determined path."""

    def __init__(self, ctx, unit, prefix):
        self.ctx = ctx  # shared: source, contracts, spec functions
        self.unit = unit
        self.prefix = list(prefix)
        self.trail = []  # (choice, n)
        self.pc = []
        self.pc_qf = []
        self.heap = {}
        self.fresh_n = 0
        self.obligations = []
        self.spec_mode = 0
        self.overlay = [{}]
        self.pathsig = []
        self.loop_ord = {}
        self.inp = z3.Array("inp", z3.IntSort(), z3.IntSort())
        self.L = z3.Int("L")
        self.pos = 0
        self.out = z3.K(z3.IntSort(), z3.IntVal(0))
        self.n = 0
        self.hdr = None
        self.model_vars = {}
        self.real_mul = False
        self.facts = {}
        self.mul_seen = set()
        self.png = None
        self.png_resized = None
        self.png_altered = None
        self.fsolver = z3.Solver()
        self.fsolver.set("timeout", solver.FEAS_TIMEOUT_MS)
        self.assume(self.L >= 0)
        i = z3.Int("i!inp")
        self.assume(z3.ForAll([i], z3.And(self.inp[i] >= 0, self.inp[i] <= 255)), qf_also=False)
        self.byte_lemma_arrays = [self.inp]
        self.hinted = set()

    # ---- infrastructure
    def fresh(self, name, sort="int"):
        self.fresh_n += 1
        nm = "%s!%d" % (name, self.fresh_n)
        if sort == "int":
            return z3.Int(nm)
        if sort == "bool":
            return z3.Bool(nm)
        if sort == "arr":
            return z3.Array(nm, z3.IntSort(), z3.IntSort())
        raise ValueError(sort)

    def choose(self, n, tag):
        k = len(self.trail)
        c = self.prefix[k] if k < len(self.prefix) else 0
        self.trail.append((c, n))
        self.pathsig.append("%s=%d" % (tag, c))
        return c

    def assume(self, cond, qf_also=True):
        cond = simp(cond) if not isinstance(cond, bool) else cond
        if cond is True:
            return
        if cond is False:
            raise PathEnd()
        if z3.is_and(cond):
            for c in cond.children():
                self.assume(c, qf_also)
            return
        if z3.is_quantifier(cond) and cond.is_exists():
            consts = [self.fresh("ex_" + cond.var_name(i)) for i in range(cond.num_vars())]
            self.assume(z3.substitute_vars(cond.body(), *reversed(consts)), qf_also)
            return
        self.pc.append(cond)
        self.ctx.keep.append(cond)  # cache keys use AST ids: keep every term alive so that ids are never reused
        if qf_also and not solver.has_quant(cond):
            self.pc_qf.append(cond)
            self.fsolver.add(cond)

    def byte_range_hint(self, term):
        """Elements of byte arrays (the input stream, `bytes` parameters) are 0..255: instantiate that axiom for a
        term that is read, so that the quantifier-free path condition knows it (keeps infeasible forks out)."""
        if is_z3(term) and z3.is_select(term) and any(term.arg(0).eq(a) for a in self.byte_lemma_arrays):
            k = term.get_id()
            if k not in self.hinted:
                self.hinted.add(k)
                self.assume(z3.And(term >= 0, term <= 255))
        return term

    def branch(self, cond, tag):
        """Fork on a symbolic condition; returns the Python bool taken on this path."""
        if isinstance(cond, bool):
            return cond
        cond = simp(cond)
        if isinstance(cond, bool):
            return cond
        ft = self.feas(cond)
        ff = self.feas(z3.Not(cond))
        if ft and not ff:
            self.assume(cond)
            return True
        if ff and not ft:
            self.assume(z3.Not(cond))
            return False
        if not ft and not ff:
            raise PathEnd()
        c = self.choose(2, tag)
        if c == 0:
            self.assume(cond)
            return True
        self.assume(z3.Not(cond))
        return False

    def feas(self, cond):
        """Over-approximate satisfiability of (quantifier-free part of the path condition) and cond, on the
        machine's incremental solver; `unknown` counts as feasible."""
        if cond is not None:
            self.ctx.keep.append(cond)
        key = (tuple(p.get_id() for p in self.pc_qf), cond.get_id() if cond is not None else None)
        c = solver._feas_cache.get(key)
        if c is not None:
            return c
        t0 = time.time()
        self.fsolver.push()
        if cond is not None:
            self.fsolver.add(cond)
        r = self.fsolver.check()
        self.fsolver.pop()
        solver.stats["feas_queries"] += 1
        solver.stats["feas_seconds"] += time.time() - t0
        res = r != z3.unsat
        solver._feas_cache[key] = res
        return res

    def oblige(self, oid, goal, detail="", known=None, env=None):
        """Record and discharge an obligation under the current path condition; then assume it.
        `known`: list of dict(finding=<id in known_findings.json>, when=<spec expr>): the obligation that must
        hold is `goal or when...`; whether `goal` itself holds decides if the finding is still present."""
        goal = simp(goal) if not isinstance(goal, bool) else goal
        full = "%s/%s/%s" % (self.unit["tag"], self.unit["name"], oid)
        known = [k for k in (known or []) if k["finding"] in self.ctx.known_ids]
        if known:
            strict = z3.BoolVal(goal) if isinstance(goal, bool) else goal
            v0, m0, b0, s0 = solver.prove(self.pc, strict, cheap=True)
            if v0 == "proved":
                self.ctx.findings_absent.update(k["finding"] for k in known)
            else:
                whens = [to_z3(self.truthy(self.eval_spec(k["when"], env))) for k in known]
                for k, w in zip(known, whens):
                    # the finding is present on this path iff its case is reachable here
                    if self.feas(w):
                        self.ctx.findings_present.setdefault(k["finding"], full)
                goal = simp(z3.Or([strict] + whens))
        if goal is True:
            self.obligations.append(Obligation(full, "proved", "simplifier", 0.0, pathsig=",".join(self.pathsig)))
            return
        g = z3.BoolVal(False) if goal is False else goal
        self.ctx.keep.append(g)
        key = (full, tuple(h.get_id() for h in self.pc), g.get_id())
        cached = self.ctx.ob_cache.get(key)
        if cached is not None:
            # same obligation reached again through a shared path prefix (paths are re-executed): not re-proved,
            # not counted twice
            if goal is not False:
                self.assume(g)
                return
            raise PathEnd()
        verdict, model, backend, secs = solver.prove(self.pc, g)
        self.ctx.ob_cache[key] = verdict
        ob = Obligation(full, verdict, backend, secs, model, detail, ",".join(self.pathsig))
        if verdict != "proved":
            ob.hyps = list(self.pc)
            ob.goal = g
            if os.environ.get("PYVC_DUMP"):
                sv = z3.Solver()
                for h in self.pc:
                    sv.add(h)
                sv.add(z3.Not(g))
                fn = os.path.join(os.environ["PYVC_DUMP"], full.replace("/", "_") + "_%d_%s.smt2" % (len(self.obligations), "-".join(str(c) for c, _ in self.trail)))
                open(fn, "w").write(sv.to_smt2())
        self.obligations.append(ob)
        if goal is not False:
            self.assume(g)
        else:
            raise PathEnd()

    # ---- values helpers
    def truthy(self, v):
        if isinstance(v, Unknown):
            raise Unsupported("use of havocked variable: " + v.why)
        if v is None:
            return False
        if isinstance(v, bool):
            return v
        if isinstance(v, int):
            return v != 0
        if isinstance(v, (str, bytes, list, tuple)):
            return len(v) != 0
        if is_z3(v):
            if z3.is_bool(v):
                return v
            return v != 0
        if isinstance(v, SymSeq):
            return simp(v.length != 0) if is_z3(v.length) else v.length != 0
        if isinstance(v, ListRef):
            return self.truthy(self.heap[v.addr])
        raise Unsupported("truthiness of %r" % (v,))

    def as_seq(self, v):
        if isinstance(v, SymSeq):
            return v
        if isinstance(v, ListRef):
            c = self.heap[v.addr]
            if isinstance(c, SymSeq):
                return c
            raise Unsupported("object list used as integer sequence")
        if isinstance(v, str):
            return seq_of_pystr(v)
        if isinstance(v, bytes):
            return seq_of_pybytes(v)
        if isinstance(v, (list, tuple)) and all(is_int(x) for x in v):
            return SymSeq(conc_array(v), 0, len(v), "list")
        raise Unsupported("not a sequence: %r" % (v,))

    def new_list(self, content):
        addr = len(self.heap) + 1
        self.heap[addr] = content
        return ListRef(addr)

    def seq_eq(self, a, b):
        """Equality of two sequence-like values as a solver term / bool."""
        if isinstance(a, FmtStr) and all(isinstance(p, str) for p in a.pieces) and not isinstance(b, (FmtStr, str)):
            a = "".join(a.pieces).encode("latin1") if isinstance(b, bytes) or (isinstance(b, SymSeq) and b.kind == "bytes") else "".join(a.pieces)
        if isinstance(b, FmtStr) and all(isinstance(p, str) for p in b.pieces) and not isinstance(a, (FmtStr, str)):
            b = "".join(b.pieces).encode("latin1") if isinstance(a, bytes) or (isinstance(a, SymSeq) and a.kind == "bytes") else "".join(b.pieces)
        if isinstance(a, FmtStr) or isinstance(b, FmtStr):
            return self.fmt_eq(a, b)
        if isinstance(a, (str, bytes)) and isinstance(b, (str, bytes)):
            return a == b
        sa, sb = self.as_seq(a), self.as_seq(b)
        la, lb = sa.length, sb.length
        if isinstance(la, int) and isinstance(lb, int):
            if la != lb:
                return False
            return simp(z3.And([sa.elem(i) == sb.elem(i) for i in range(la)] + [z3.BoolVal(True)]))
        if isinstance(la, int) or isinstance(lb, int):
            k = la if isinstance(la, int) else lb
            return simp(z3.And([to_z3(la) == to_z3(lb)] + [sa.elem(i) == sb.elem(i) for i in range(k)]))
        j = self.fresh("j")
        return z3.And(la == lb, z3.ForAll([j], z3.Implies(z3.And(j >= 0, j < la), sa.elem(j) == sb.elem(j))))

    def fmt_eq(self, a, b):
        if isinstance(a, str):
            a = FmtStr([a])
        if isinstance(b, str):
            b = FmtStr([b])
        if a is None or b is None:
            return a is b
        if not (isinstance(a, FmtStr) and isinstance(b, FmtStr)):
            raise Unsupported("comparison of formatted text with %r" % (b,))
        if len(a.pieces) != len(b.pieces):
            return False
        conj = []
        for p, q in zip(a.pieces, b.pieces):
            if isinstance(p, str) or isinstance(q, str):
                if p != q:
                    return False
            elif p[0] == "dec" and q[0] == "dec":
                conj.append(to_z3(p[1]) == to_z3(q[1]))
            else:
                if p is not q:
                    return False
        return simp(z3.And(conj)) if conj else True

    # ---- spec names
    def spec_special(self, name):
        if name == "inp":
            return SymSeq(self.inp, 0, self.L, "bytes")
        if name == "L":
            return self.L
        if name == "pos":
            return self.pos
        if name == "out":
            return SymSeq(self.out, 0, self.n, "bytes")
        if name == "n":
            return self.n
        if name == "hdr":
            return self.hdr
        if name in ("png_w", "png_h", "png_bitmap", "png_palette", "png_written", "png_resized_w", "png_resized_h", "png_resized", "png_altered"):
            if name == "png_altered":
                return self.png_altered is not None
            if name == "png_written":
                return self.png is not None
            if name == "png_resized":
                return self.png_resized is not None
            if name.startswith("png_resized_"):
                return self.png_resized[0 if name.endswith("w") else 1] if self.png_resized else -1
            if self.png is None:
                raise Unsupported("no PNG was written on this path")
            return {"png_w": self.png["width"], "png_h": self.png["height"], "png_bitmap": self.png["bitmap"], "png_palette": self.png["palette"]}[name]
        raise KeyError(name)

    def lookup(self, name, env):
        try:
            return self.lookup0(name, env)
        except Unsupported:
            q = env.qualname if isinstance(env.qualname, str) and not env.qualname.startswith("spec:") else self.unit["qualname"]
            for qual in (q, self.unit["qualname"]):
                alias = self.ctx.alias_for(self.unit["module"], qual, name)
                if alias:
                    return self.lookup0(alias, env)
            raise

    def lookup0(self, name, env):
        for ov in reversed(self.overlay):
            if name in ov:
                return ov[name]
        if env.has(name):
            v = env.lookup(name)
            if self.spec_mode and isinstance(v, OutStream):
                return self.spec_special("out")
            if self.spec_mode and isinstance(v, InStream):
                return self.spec_special("inp")
            return v
        if self.spec_mode:
            try:
                return self.spec_special(name)
            except KeyError:
                pass
            if name in self.ctx.specfuns:
                return self.ctx.specfuns[name]
            if name in self.ctx.spec_consts:
                return self.ctx.spec_consts[name]
        consts = self.ctx.module_consts(self.unit["module"])
        if name in consts:
            return consts[name]
        if name in self.ctx.module_funcs(self.unit["module"]):
            return self.ctx.module_funcs(self.unit["module"])[name]
        if name in ("sys", "os", "math", "codecs", "argparse", "png", "Image"):
            return ModuleRef(name)
        if name in BUILTINS or (self.spec_mode and name in SPEC_BUILTINS):
            return Builtin(name)
        if name in ("str", "float", "bool"):
            return Builtin(name)
        if name in self.ctx.module_globals(self.unit["module"]):
            # a module-level value that is not a literal constant (DESCRIPTION, __version__ ...): only ever passed on to externals
            return Opaque("module-global:" + name)
        raise Unsupported("unbound name %s in %s" % (name, self.unit["name"]))

    # --------------------------------------------------------------------------------------
    # expressions

    def eval(self, node, env):
        m = getattr(self, "e_" + type(node).__name__, None)
        if m is None:
            raise Unsupported("expression %s at line %s" % (type(node).__name__, getattr(node, "lineno", "?")))
        v = m(node, env)
        if isinstance(v, Unknown) and not isinstance(node, ast.Name):
            raise Unsupported("use of havocked value: " + v.why)
        return v

    def e_Constant(self, node, env):
        return node.value

    def e_Name(self, node, env):
        v = self.lookup(node.id, env)
        if isinstance(v, Unknown):
            raise Unsupported("read of variable %s whose type is not known after a loop cut (%s)" % (node.id, v.why))
        return v

    def e_List(self, node, env):
        vals = [self.eval(e, env) for e in node.elts]
        if all(is_int(v) for v in vals):
            return self.new_list(SymSeq(conc_array(vals), 0, len(vals), "list"))
        if vals and all(isinstance(v, str) and len(v) == 1 for v in vals):
            return self.new_list(SymSeq(conc_array([ord(v) for v in vals]), 0, len(vals), "charlist"))
        return self.new_list(list(vals))

    def e_Tuple(self, node, env):
        return tuple(self.eval(e, env) for e in node.elts)

    def e_IfExp(self, node, env):
        t = self.truthy(self.eval(node.test, env))
        if isinstance(t, bool):
            return self.eval(node.body if t else node.orelse, env)
        if self.spec_mode:
            a = self.eval(node.body, env)
            b = self.eval(node.orelse, env)
            if is_boolish(a) and is_boolish(b):
                return z3.If(t, to_z3(a), to_z3(b))
            return z3.If(t, to_z3(a), to_z3(b))
        if self.branch(t, "ifexp@%d" % node.lineno):
            return self.eval(node.body, env)
        return self.eval(node.orelse, env)

    def e_BoolOp(self, node, env):
        if self.spec_mode:
            vals = []
            for sub in node.values:
                t = self.truthy(self.eval(sub, env))
                if isinstance(node.op, ast.And) and t is False:
                    return False
                if isinstance(node.op, ast.Or) and t is True:
                    return True
                if not isinstance(t, bool):
                    vals.append(t)
            if not vals:
                return isinstance(node.op, ast.And)
            return simp(z3.And(vals)) if isinstance(node.op, ast.And) else simp(z3.Or(vals))
        # Python semantics: short circuit, returns operand; the subset only uses boolean contexts
        result = None
        for i, sub in enumerate(node.values):
            v = self.eval(sub, env)
            t = self.truthy(v)
            last = i == len(node.values) - 1
            if last:
                return t if not isinstance(t, bool) or is_boolish(v) else (v if False else t)
            tk = self.branch(t, "boolop@%d" % node.lineno)
            if isinstance(node.op, ast.And) and not tk:
                return False
            if isinstance(node.op, ast.Or) and tk:
                return True
        return result

    def e_UnaryOp(self, node, env):
        v = self.eval(node.operand, env)
        if isinstance(node.op, ast.Not):
            t = self.truthy(v)
            return (not t) if isinstance(t, bool) else simp(z3.Not(t))
        if isinstance(node.op, ast.USub):
            return simp(-v) if is_z3(v) else -v
        if isinstance(node.op, ast.UAdd):
            return v
        raise Unsupported("unary operator %s" % type(node.op).__name__)

    def e_Compare(self, node, env):
        if isinstance(node.left, ast.Attribute) and node.left.attr == "version_info" and len(node.ops) == 1 and isinstance(node.ops[0], ast.Lt):
            # `sys.version_info < (3,)`: constant-evaluated against the interpreter that runs the repository (3.x)
            self.ctx.assumed.add("Python-2 arms (`sys.version_info < (3,)`) are dead code on the running interpreter and are dropped")
            return False
        left = self.eval(node.left, env)
        conj = []
        for op, rn in zip(node.ops, node.comparators):
            right = self.eval(rn, env)
            conj.append(self.compare(op, left, right))
            left = right
        if len(conj) == 1:
            return conj[0]
        if any(c is False for c in conj):
            return False
        return simp(z3.And([to_z3(c) for c in conj]))

    def compare(self, op, a, b):
        if isinstance(op, (ast.Is, ast.IsNot)):
            if a is None or b is None:
                r = a is None and b is None
            else:
                raise Unsupported("`is` on non-None operands")
            return r if isinstance(op, ast.Is) else not r
        seqish = (SymSeq, ListRef, str, bytes, FmtStr)
        if isinstance(op, (ast.Eq, ast.NotEq)):
            if a is None or b is None:
                r = a is None and b is None
            elif isinstance(a, seqish) or isinstance(b, seqish):
                if not (isinstance(a, seqish) and isinstance(b, seqish)):
                    r = False
                else:
                    r = self.seq_eq(a, b)
            elif is_boolish(a) and is_boolish(b) and (is_z3(a) or is_z3(b)):
                r = simp(to_z3(a) == to_z3(b))
            else:
                a2 = self.num(a)
                b2 = self.num(b)
                r = (a2 == b2) if not (is_z3(a2) or is_z3(b2)) else simp(to_z3(a2) == to_z3(b2))
            if isinstance(op, ast.Eq):
                return r
            return (not r) if isinstance(r, bool) else simp(z3.Not(r))
        a, b = self.num(a), self.num(b)
        if isinstance(op, ast.Lt):
            r = a < b
        elif isinstance(op, ast.LtE):
            r = a <= b
        elif isinstance(op, ast.Gt):
            r = a > b
        elif isinstance(op, ast.GtE):
            r = a >= b
        else:
            raise Unsupported("comparison %s" % type(op).__name__)
        return simp(r)

    def num(self, v):
        if isinstance(v, bool):
            return int(v)
        if is_z3(v) and z3.is_bool(v):
            return z3.If(v, 1, 0)
        if is_int(v):
            return v
        if isinstance(v, Unknown):
            raise Unsupported("use of havocked value: " + v.why)
        if isinstance(v, float):
            raise Unsupported("float arithmetic (outside the solver domain)")
        raise Unsupported("numeric use of %r" % (v,))

    def e_BinOp(self, node, env):
        a = self.eval(node.left, env)
        b = self.eval(node.right, env)
        return self.binop(node.op, a, b, node)

    def binop(self, op, a, b, node=None):
        seqish = (SymSeq, ListRef, str, bytes)
        if isinstance(op, ast.Mult) and (isinstance(a, seqish) or isinstance(b, seqish)):
            s, k = (a, b) if isinstance(a, seqish) else (b, a)
            return self.seq_repeat(s, self.num(k))
        if isinstance(op, ast.Add) and isinstance(a, seqish) and isinstance(b, seqish):
            return self.seq_concat(a, b)
        if isinstance(op, ast.Mod) and isinstance(a, (str, FmtStr)):
            raise Unsupported("% string formatting")
        a, b = self.num(a), self.num(b)
        conc = not (is_z3(a) or is_z3(b))
        if isinstance(op, ast.Add):
            return simp(a + b)
        if isinstance(op, ast.Sub):
            return simp(a - b)
        if isinstance(op, ast.Mult):
            if is_z3(a) and is_z3(b) and not self.real_mul:
                return self.abs_mul(a, b)
            return simp(a * b)
        if isinstance(op, ast.FloorDiv):
            return self.floordiv(a, b)
        if isinstance(op, ast.Mod):
            return self.pymod(a, b)
        if isinstance(op, ast.RShift):
            if conc:
                return a >> b
            if isinstance(b, int) and b >= 0:
                return simp(to_z3(a) / (1 << b))
            raise Unsupported("shift by a symbolic amount")
        if isinstance(op, ast.LShift):
            if conc:
                return a << b
            if isinstance(b, int) and b >= 0:
                return simp(a * (1 << b))
            raise Unsupported("shift by a symbolic amount")
        if isinstance(op, ast.BitAnd):
            if conc:
                return a & b
            if isinstance(a, int):
                a, b = b, a
            if isinstance(b, int) and b >= 0:
                return self.mask_and(a, b)
            raise Unsupported("& of two symbolic operands")
        if isinstance(op, ast.BitOr):
            if conc:
                return a | b
            raise Unsupported("| on symbolic operands")
        if isinstance(op, ast.BitXor):
            if conc:
                return a ^ b
            raise Unsupported("^ on symbolic operands")
        if isinstance(op, ast.Pow):
            if conc and b >= 0:
                return a ** b
            if isinstance(b, int) and 0 <= b <= 4:
                r = 1
                for _ in range(b):
                    r = r * a
                return simp(r)
            raise Unsupported("** with symbolic exponent")
        if isinstance(op, ast.Div):
            raise Unsupported("true division (float)")
        raise Unsupported("operator %s" % type(op).__name__)

    def abs_mul(self, a, b):
        """Product of two symbolic terms: an uninterpreted function (arguments ordered), so that the main
        obligations stay in linear arithmetic + arrays + quantifiers.  The facts about products that a proof
        needs are stated as `lemmas` in the contract, each proved separately with real multiplication."""
        a, b = simp(a), simp(b)
        if not (is_z3(a) and is_z3(b)):
            return simp(to_z3(a) * to_z3(b))
        coef = 1

        def split(t):
            if z3.is_mul(t) and t.num_args() == 2 and z3.is_int_value(t.arg(0)):
                return t.arg(0).as_long(), t.arg(1)
            return 1, t
        ca, a = split(a)
        cb, b = split(b)
        coef = ca * cb
        if str(a) > str(b):
            a, b = b, a
        r = MUL(a, b)
        key = (a.get_id(), b.get_id())
        if key not in self.mul_seen and not a.eq(b):
            # commutativity instance (a valid fact about multiplication), so that congruence can relate
            # products whose factors are later shown equal to factors written in the other order
            self.mul_seen.add(key)
            self.ctx.keep.extend([a, b])
            self.assume(MUL(a, b) == MUL(b, a))
        return simp(coef * r) if coef != 1 else r

    def realify(self, e):
        return z3.substitute_funs(e, (MUL, z3.Var(0, z3.IntSort()) * z3.Var(1, z3.IntSort())))

    def lemmas(self, texts, env, where):
        for i, text in enumerate(texts or []):
            f_abs = to_z3(self.truthy(self.eval_spec(text, env)))
            hyps = [self.realify(h) for h in self.pc_qf]
            verdict, model, backend, secs = solver.prove(hyps, self.realify(f_abs), use_cvc5=True, plain=True)
            full = "%s/%s/%s.lemma%d" % (self.unit["tag"], self.unit["name"], where, i)
            ob = Obligation(full, verdict, backend + "(nonlinear)", secs, model, text, ",".join(self.pathsig))
            if verdict != "proved":
                ob.hyps, ob.goal = hyps, self.realify(f_abs)
            self.obligations.append(ob)
            self.assume(f_abs)

    def mask_and(self, x, mask):
        """x & mask for a non-negative constant mask, exact for every Python int x:
        sum over maximal runs of 1-bits [lo, lo+w) of ((x div 2^lo) mod 2^w) * 2^lo."""
        if mask == 0:
            return 0
        x = to_z3(x)
        terms = []
        lo = 0
        m = mask
        while m:
            if m & 1:
                w = 0
                while m & 1:
                    w += 1
                    m >>= 1
                t = x / (1 << lo) if lo else x
                t = t % (1 << w)
                terms.append(t * (1 << lo) if lo else t)
                lo += w
            else:
                m >>= 1
                lo += 1
        r = terms[0]
        for t in terms[1:]:
            r = r + t
        return simp(r)

    def floordiv(self, a, b):
        if not (is_z3(a) or is_z3(b)):
            if b == 0:
                raise RaiseEx("ZeroDivisionError")
            return a // b
        if isinstance(b, int):
            if b > 0:
                return simp(to_z3(a) / b)
            if b < 0:
                return simp((-to_z3(a)) / (-b))
            raise RaiseEx("ZeroDivisionError")
        if not self.spec_mode:
            if self.branch(simp(b == 0), "divzero"):
                raise RaiseEx("ZeroDivisionError")
        a = to_z3(a)
        return simp(z3.If(b > 0, a / b, (-a) / (-b)))

    def pymod(self, a, b):
        if not (is_z3(a) or is_z3(b)):
            if b == 0:
                raise RaiseEx("ZeroDivisionError")
            return a % b
        if isinstance(b, int) and b > 0:
            return simp(to_z3(a) % b)
        q = self.floordiv(a, b)
        return simp(a - b * q)

    def seq_repeat(self, s, k):
        if isinstance(s, (str, bytes)) and isinstance(k, int):
            return s * k
        sq = self.as_seq(s)
        kind = sq.kind
        if isinstance(sq.length, int) and isinstance(k, int):
            vals = [sq.elem(i) for i in range(sq.length)] * max(k, 0)
            r = SymSeq(conc_array(vals), 0, len(vals), kind)
        elif isinstance(sq.length, int) and sq.length == 1:
            # [x] * k : constant array
            kk = to_z3(k)
            r = SymSeq(z3.K(z3.IntSort(), to_z3(sq.elem(0))), 0, simp(z3.If(kk > 0, kk, 0)), kind)
        else:
            raise Unsupported("repetition of a symbolic-length sequence")
        if isinstance(s, ListRef) or kind == "list":
            return self.new_list(r)
        return r

    def seq_concat(self, a, b):
        if isinstance(a, (str, bytes)) and isinstance(b, type(a)):
            return a + b
        sa, sb = self.as_seq(a), self.as_seq(b)
        if isinstance(sa.length, int) and isinstance(sb.length, int):
            vals = [sa.elem(i) for i in range(sa.length)] + [sb.elem(i) for i in range(sb.length)]
            r = SymSeq(conc_array(vals), 0, len(vals), sa.kind)
        else:
            arr = self.fresh("cat", "arr")
            j = self.fresh("j")
            la, lb = to_z3(sa.length), to_z3(sb.length)
            self.assume(z3.ForAll([j], z3.Implies(z3.And(j >= 0, j < la), arr[j] == sa.elem(j))), qf_also=False)
            self.assume(z3.ForAll([j], z3.Implies(z3.And(j >= 0, j < lb), arr[la + j] == sb.elem(j))), qf_also=False)
            r = SymSeq(arr, 0, simp(la + lb), sa.kind)
        if isinstance(a, ListRef) or sa.kind == "list":
            return self.new_list(r)
        return r

    def e_Subscript(self, node, env):
        base = self.eval(node.value, env)
        if isinstance(node.slice, ast.Slice):
            return self.do_slice(base, node.slice, env)
        idx = self.eval(node.slice, env)
        return self.index(base, idx, node)

    def index(self, base, idx, node=None):
        if isinstance(base, ListRef):
            cell = self.heap[base.addr]
            if isinstance(cell, list):
                return self.index_objlist(cell, idx)
            base = cell
        if isinstance(base, (list, tuple)):
            return self.index_objlist(list(base), idx)
        if isinstance(base, (str, bytes)):
            if isinstance(idx, int):
                if self.spec_mode:
                    if 0 <= idx < len(base):
                        return ord(base[idx]) if isinstance(base, str) else base[idx]
                elif -len(base) <= idx < len(base):
                    return base[idx]
                else:
                    raise RaiseEx("IndexError")
            base = self.as_seq(base)
        if not isinstance(base, SymSeq):
            raise Unsupported("indexing of %r" % (base,))
        idx = self.num(idx)
        ln = base.length
        if not self.spec_mode:
            inb = simp(z3.And(to_z3(idx) >= -to_z3(ln), to_z3(idx) < to_z3(ln)))
            if not self.branch(inb, "index@%d" % (node.lineno if node is not None else 0)):
                raise RaiseEx("IndexError")
            neg = self.branch(simp(to_z3(idx) < 0), "negidx") if not (isinstance(idx, int) and idx >= 0) else False
            if neg:
                idx = simp(idx + ln)
        e = simp(base.elem(idx))
        if not self.spec_mode:
            self.byte_range_hint(e)
            if is_z3(e) and isinstance(base.length, int) and base.length <= 256:
                vals = [simp(base.elem(i)) for i in range(base.length)]
                if all(isinstance(v, int) for v in vals) and vals:
                    # a constant table read at a symbolic (in-range) index: its value lies between the table's extremes
                    self.assume(z3.And(e >= min(vals), e <= max(vals)))
        if base.kind == "str" and not self.spec_mode:
            return SymSeq(conc_array([e]), 0, 1, "str")
        return e

    def index_objlist(self, items, idx):
        idx = self.num(idx)
        if isinstance(idx, int):
            if -len(items) <= idx < len(items):
                return items[idx]
            raise RaiseEx("IndexError")
        if not self.spec_mode:
            inb = simp(z3.And(idx >= 0, idx < len(items)))
            if not self.branch(inb, "index-objlist"):
                if self.branch(simp(z3.And(idx >= -len(items), idx < 0)), "negidx"):
                    raise Unsupported("negative symbolic index into an object list")
                raise RaiseEx("IndexError")
        ckey = (tuple(id(x) for x in items), idx.get_id())
        hit = self.ctx.objidx_cache.get(ckey)
        if hit is not None:
            return hit[0]
        seqs = [self.as_seq(x) for x in items]
        lens = {s.length if isinstance(s.length, int) else None for s in seqs}
        if len(lens) != 1 or None in lens:
            raise Unsupported("symbolic index into a list of sequences of different lengths")
        ln = lens.pop()
        vals = []
        for k in range(ln):
            t = to_z3(seqs[-1].elem(k))
            for j in range(len(seqs) - 2, -1, -1):
                t = z3.If(idx == j, to_z3(seqs[j].elem(k)), t)
            vals.append(simp(t))
        res = SymSeq(conc_array(vals), 0, ln, seqs[0].kind)
        self.ctx.objidx_cache[ckey] = (res, items, idx)    # items and idx kept alive: the key uses their identities
        return res

    def do_slice(self, base, sl, env):
        if sl.step is not None:
            raise Unsupported("slice step")
        lo = self.eval(sl.lower, env) if sl.lower is not None else 0
        hi = self.eval(sl.upper, env) if sl.upper is not None else None
        if isinstance(base, (str, bytes)) and isinstance(lo, int) and (hi is None or isinstance(hi, int)):
            return base[lo:hi]
        s = self.as_seq(base)
        ln = to_z3(s.length)
        lo = to_z3(self.num(lo))
        # clip (Python semantics for non-negative bounds; negative bounds are outside the subset)
        if not self.spec_mode:
            self.require_nonneg(lo, "slice lower bound")
        lo_c = z3.If(lo > ln, ln, lo)
        if hi is None:
            hi_c = ln
        else:
            hi = to_z3(self.num(hi))
            if not self.spec_mode:
                self.require_nonneg(hi, "slice upper bound")
            hi_c = z3.If(hi > ln, ln, hi)
        length = simp(z3.If(hi_c - lo_c > 0, hi_c - lo_c, 0))
        r = SymSeq(s.arr, simp(s.off + lo_c), length, s.kind)
        if isinstance(base, ListRef):
            return self.new_list(r)
        return r

    def require_nonneg(self, term, what):
        t = simp(term >= 0)
        if t is True:
            return
        if self.feas(z3.Not(t)):
            raise Unsupported("%s may be negative (outside the modelled subset)" % what)
        self.assume(t)

    def e_Attribute(self, node, env):
        base = self.eval(node.value, env)
        if isinstance(base, ModuleRef):
            full = base.name + "." + node.attr
            if full == "sys.stderr":
                return ErrStream()
            if full in ("os.path", ):
                return ModuleRef(full)
            return Builtin(full)
        if isinstance(base, InStream) and node.attr == "name":
            return ("filename",)
        if isinstance(base, Opaque) and base.what == "argparse-namespace":
            if node.attr == "input_image":
                return ("input-file-name",)
            if node.attr == "output_image":
                return ("output-file-name",)
            raise Unsupported("option %s of the command line is not modelled" % node.attr)
        return BoundMethod(base, node.attr)

    def e_JoinedStr(self, node, env):
        pieces = []
        for v in node.values:
            if isinstance(v, ast.Constant):
                pieces.append(v.value)
            else:
                if v.format_spec is not None or v.conversion != -1:
                    raise Unsupported("format spec in f-string")
                pieces.append(self.fmt_piece(self.eval(v.value, env)))
        return FmtStr(pieces)

    def fmt_piece(self, v):
        if isinstance(v, bool) or v is None:
            return str(v)
        if isinstance(v, int):
            return str(v)
        if is_z3(v) and z3.is_int(v):
            return ("dec", v)
        if isinstance(v, str):
            return v
        self.fresh_n += 1
        return ("opaque", self.fresh_n)

    def e_ListComp(self, node, env):
        if len(node.generators) != 1 or node.generators[0].ifs or node.generators[0].is_async:
            raise Unsupported("comprehension shape")
        gen = node.generators[0]
        if not isinstance(gen.target, ast.Name):
            raise Unsupported("comprehension target")
        it = self.eval(gen.iter, env)
        var = gen.target.id
        sub = Env(env, env.qualname)
        if isinstance(it, tuple) and it and it[0] == "range":
            nrange = it[1]
            if not isinstance(nrange, int):
                raise Unsupported("comprehension over a symbolic range")
            vals = []
            for k in range(nrange):
                sub.vars[var] = k
                vals.append(self.eval(node.elt, sub))
            return self.mk_list(vals)
        if isinstance(it, ListRef) and isinstance(self.heap[it.addr], list):
            vals = []
            for x in self.heap[it.addr]:
                sub.vars[var] = x
                vals.append(self.eval(node.elt, sub))
            return self.mk_list(vals)
        s = self.as_seq(it)
        if isinstance(s.length, int):
            vals = []
            for k in range(s.length):
                sub.vars[var] = self.seq_item(s, k)
                vals.append(self.eval(node.elt, sub))
            return self.mk_list(vals)
        # symbolic length: element-wise map, supported for the pure body `ord(v)` / `v`
        elt = node.elt
        if (isinstance(elt, ast.Call) and isinstance(elt.func, ast.Name) and elt.func.id == "ord" and len(elt.args) == 1
                and isinstance(elt.args[0], ast.Name) and elt.args[0].id == var and s.kind == "str"):
            return self.new_list(SymSeq(s.arr, s.off, s.length, "list"))
        raise Unsupported("comprehension over a symbolic-length sequence with a non-trivial body")

    def seq_item(self, s, k):
        e = simp(s.elem(k))
        if not self.spec_mode:
            self.byte_range_hint(e)
        if s.kind == "str":
            return SymSeq(conc_array([e]), 0, 1, "str")
        return e

    def mk_list(self, vals):
        if all(is_int(v) for v in vals):
            return self.new_list(SymSeq(conc_array(vals), 0, len(vals), "list"))
        return self.new_list(list(vals))

    def e_Lambda(self, node, env):
        if not self.spec_mode:
            raise Unsupported("lambda")
        return Closure(node, env, "<lambda>")

    # --------------------------------------------------------------------------------------
    # calls

    def e_Call(self, node, env):
        f = self.eval(node.func, env)
        if self.spec_mode and isinstance(f, Builtin) and f.name in ("forall", "exists", "forallq"):
            return self.quantifier(f.name, node, env)
        args = [self.eval(a, env) for a in node.args]
        kwargs = {k.arg: self.eval(k.value, env) for k in node.keywords}
        return self.call(f, args, kwargs, node, env)

    def quantifier(self, which, node, env):
        lo_v = self.num(self.eval(node.args[0], env))
        hi_v = self.num(self.eval(node.args[1], env))
        lam = node.args[2]
        if not isinstance(lam, ast.Lambda) or len(lam.args.args) != 1:
            raise Unsupported("forall(lo, hi, lambda j: ...) expected")
        name = lam.args.args[0].arg
        if which == "forallq":
            which = "forall"      # kept as a quantifier even over a small constant range (instantiated at symbolic indices)
        elif isinstance(lo_v, int) and isinstance(hi_v, int) and hi_v - lo_v <= 64:
            # small constant range: expand (exact)
            parts = []
            for jv in range(lo_v, hi_v):
                self.overlay.append({name: jv})
                try:
                    parts.append(self.truthy(self.eval(lam.body, env)))
                finally:
                    self.overlay.pop()
            if which == "forall":
                if any(p is False for p in parts):
                    return False
                ps = [to_z3(p) for p in parts if p is not True]
                return simp(z3.And(ps)) if ps else True
            if any(p is True for p in parts):
                return True
            ps = [to_z3(p) for p in parts if p is not False]
            return simp(z3.Or(ps)) if ps else False
        lo, hi = to_z3(lo_v), to_z3(hi_v)
        j = self.fresh(name)
        self.overlay.append({name: j})
        try:
            body = self.truthy(self.eval(lam.body, env))
        finally:
            self.overlay.pop()
        body = to_z3(body)
        rng = z3.And(j >= lo, j < hi)
        pats = self.ctx.patterns_for(body, j)
        if which == "forall":
            return z3.ForAll([j], z3.Implies(rng, body))
        return z3.Exists([j], z3.And(rng, body))

    def call(self, f, args, kwargs, node, env):
        if isinstance(f, Builtin):
            return self.call_builtin(f.name, args, kwargs, node, env)
        if isinstance(f, BoundMethod):
            return self.call_method(f.recv, f.name, args, kwargs, node, env)
        if isinstance(f, Closure):
            return self.call_function(f, args, kwargs, node)
        if isinstance(f, SpecFun):
            return self.call_specfun(f, args)
        raise Unsupported("call of %r" % (f,))

    def call_specfun(self, f, args):
        nm = f.node.name
        if nm in self.ctx.opaque and nm not in self.unit.get("reveal", ()):
            # opaque spec function: an uninterpreted symbol (only congruence is available to this proof);
            # its definition is revealed only in the units that must establish it
            fn = z3.Function("spec_" + nm, *([z3.IntSort()] * (len(args) + 1)))
            return fn(*[to_z3(self.num(a)) for a in args])
        sub = Env(None, "spec:" + f.node.name)
        names = [a.arg for a in f.node.args.args]
        if len(names) != len(args):
            raise Unsupported("spec function %s arity" % f.node.name)
        sub.vars.update(zip(names, args))
        self.spec_mode += 1
        saved = self.overlay
        self.overlay = [{}]
        try:
            try:
                self.exec_block(f.node.body, sub)
            except ReturnEx as r:
                return r.value
            return None
        finally:
            self.overlay = saved
            self.spec_mode -= 1

    def call_function(self, f, args, kwargs, node):
        """User function: through its contract if it has one, else inlined."""
        fmod = getattr(f.env, "module", None) or self.unit["module"]
        contract = self.ctx.contract_for(fmod, f.qualname, self.unit["tag"])
        fn = f.node
        names = [a.arg for a in fn.args.args]
        if kwargs or fn.args.vararg or fn.args.kwarg or fn.args.kwonlyargs or len(args) != len(names):
            raise Unsupported("call shape of %s" % f.qualname)
        if self.spec_mode:
            raise Unsupported("program function %s used in a specification" % f.qualname)
        if contract is None:
            sub = Env(f.env, f.qualname)
            sub.vars.update(zip(names, args))
            self.ctx.inlined.add(fmod + "." + f.qualname)
            try:
                self.exec_block(fn.body, sub)
            except ReturnEx as r:
                return r.value
            return None
        return self.apply_contract(contract, f, dict(zip(names, args)), node)

    def apply_contract(self, contract, f, binding, node):
        sub = Env(f.env, f.qualname)
        sub.vars.update(binding)
        line = node.lineno if node is not None else 0
        self.ctx.contracts_used.add(contract["name"])
        if contract.get("passthrough_fmt") and len(binding) == 1:
            (v,) = binding.values()
            if isinstance(v, FmtStr):
                # header text: literal ASCII pieces and decimal renderings of ints; latin-1 encodes it unchanged
                if not v.is_ascii_structural() or not all(ord(ch) < 128 for p in v.pieces if isinstance(p, str) for ch in p):
                    raise Unsupported("encoding of formatted text that is not ASCII-structural")
                return v
            if isinstance(v, str) and v and all(ord(ch) < 128 for ch in v):
                return FmtStr([v])
        self.spec_mode += 1
        try:
            for i, r in enumerate(contract.get("requires", [])):
                g = self.truthy(self.eval_spec(r, sub))
                self.spec_mode -= 1
                try:
                    self.oblige("call-pre/%s/%d@L%d" % (contract["name"].split(".")[-1], i, line), g, detail=r)
                finally:
                    self.spec_mode += 1
            rw = [(exc, self.truthy(self.eval_spec(cond, sub))) for exc, cond in contract.get("raises_when", [])]
        finally:
            self.spec_mode -= 1
        for exc, cond in rw:
            if self.branch(cond, "callee-raises-%s@L%d" % (exc, line)):
                raise RaiseEx(exc, "raised by %s (contract)" % contract["name"])
        for exc in contract.get("may_raise", []):
            if self.choose(2, "callee-may-raise-%s@L%d" % (exc, line)) == 1:
                raise RaiseEx(exc, "raised by %s (contract)" % contract["name"])
        self.spec_mode += 1
        try:
            writes = [self.num(self.eval_spec(w, sub)) for w in contract.get("writes", [])]
            ret = self.eval_spec(contract["returns"], sub) if "returns" in contract else None
        finally:
            self.spec_mode -= 1
        for w in writes:
            self.out_append(w)
        if "result_spec" in contract:
            # the caller sees the result only through clauses the callee's own unit proves as postconditions
            posts = {c["post"] for c in contract.get("ensures", [])}
            kind = contract.get("result_kind", "list")
            ln = self.fresh("res_len")
            self.assume(ln >= 0)
            res = SymSeq(self.fresh("res", "arr"), 0, ln, kind)
            ret = self.new_list(res) if kind == "list" else res
            sub.vars["result"] = ret
            for clause in contract["result_spec"]:
                if clause not in posts:
                    raise Unsupported("result_spec clause of %s is not one of its proved postconditions: %s" % (contract["name"], clause))
                self.assume(to_z3(self.truthy(self.eval_spec(clause, sub))), qf_also=True)
        return ret

    def eval_spec(self, text, env):
        tree = self.ctx.parse_spec(text)
        self.spec_mode += 1
        try:
            return self.eval(tree, env)
        finally:
            self.spec_mode -= 1

    def out_append(self, byte):
        self.out = z3.Store(self.out, to_z3(self.n), to_z3(byte))
        self.n = simp(self.n + 1)

    # builtins ------------------------------------------------------------------------------
    def call_builtin(self, name, args, kwargs, node, env):
        if name == "ord":
            (s,) = args
            if isinstance(s, str):
                if len(s) != 1:
                    raise RaiseEx("TypeError", "ord() of string of length %d" % len(s))
                return ord(s)
            sq = self.as_seq(s)
            ok = simp(to_z3(sq.length) == 1) if is_z3(sq.length) else sq.length == 1
            if self.spec_mode:
                return simp(sq.elem(0))
            if not self.branch(ok, "ord@%d" % node.lineno):
                raise RaiseEx("TypeError", "ord() expected a character")
            return self.byte_range_hint(simp(sq.elem(0)))
        if name == "chr":
            (v,) = args
            v = self.num(v)
            if not self.spec_mode:
                ok = simp(z3.And(to_z3(v) >= 0, to_z3(v) < 0x110000))
                if not self.branch(ok, "chr"):
                    raise RaiseEx("ValueError")
            return SymSeq(conc_array([v]), 0, 1, "str")
        if name == "len":
            (s,) = args
            if isinstance(s, (str, bytes, list, tuple)):
                return len(s)
            if isinstance(s, ListRef) and isinstance(self.heap[s.addr], list):
                return len(self.heap[s.addr])
            return self.as_seq(s).length
        if name == "range":
            if len(args) != 1:
                vals = [self.num(a) for a in args]
                if len(args) in (2, 3) and all(isinstance(v, int) for v in vals) and (len(vals) < 3 or vals[2] != 0) and len(range(*vals)) <= UNROLL_MAX:
                    return self.mk_list(list(range(*vals)))      # constant range with start / step: a literal list (unrolled by `for`)
                raise Unsupported("range with %d arguments" % len(args))
            return ("range", self.num(args[0]))
        if name == "int":
            (v,) = args
            if isinstance(v, SqrtVal) and getattr(v, "rounded", False):
                # int(round(math.sqrt(x))): the integer nearest to the square root: (2r-1)^2 <= 4x < (2r+1)^2 (no ties: 4x is even)
                r = self.fresh("rsqrt")
                x = to_z3(v.x)
                self.assume(z3.And(r >= 0, z3.Or(r == 0, self.abs_mul(2 * r - 1, 2 * r - 1) <= 4 * x), 4 * x < self.abs_mul(2 * r + 1, 2 * r + 1)))
                self.ctx.assumed.add("int(round(math.sqrt(x))) is the integer nearest to the square root (exact below 2^52)")
                return r
            if isinstance(v, SqrtVal):
                # assumed contract (DESIGN 6.1): int(math.sqrt(x)) is the integer square root of x
                r = self.fresh("isqrt")
                x = to_z3(v.x)
                self.assume(z3.And(r >= 0, self.abs_mul(r, r) <= x, x < self.abs_mul(r + 1, r + 1)))
                self.ctx.assumed.add("int(math.sqrt(x)) is the integer square root (exact below 2^52)")
                return r
            if is_int(v):
                return v
            raise Unsupported("int() of %r" % (v,))
        if name == "bytes":
            (v,) = args
            sq = self.as_seq(v)
            self.check_bytes_range(sq, "bytes()", node)
            return sq.with_kind("bytes")
        if name == "round" and len(args) == 1 and isinstance(args[0], SqrtVal):
            rv = SqrtVal(args[0].x)
            rv.rounded = True
            return rv
        if name in ("min", "max") and len(args) == 2:
            a, b = self.num(args[0]), self.num(args[1])
            if not (is_z3(a) or is_z3(b)):
                return min(a, b) if name == "min" else max(a, b)
            a, b = to_z3(a), to_z3(b)
            return simp(z3.If(a <= b, a, b) if name == "min" else z3.If(a >= b, a, b))
        if name == "print":
            return None
        if name.startswith("argparse."):
            self.ctx.assumed.add("argparse: the parser returns the two positional file names (assumed external)")
            return Opaque("argparse-parser")
        if name == "open":
            fname, mode = args[0], (args[1] if len(args) > 1 else "r")
            if fname == ("input-file-name",) and mode == "rb":
                return InStream()
            if fname == ("output-file-name",) and mode == "wb":
                return OutStream()
            raise Unsupported("open(%r, %r)" % (fname, mode))
        if name == "bytearray":
            sq = self.as_seq(args[0])
            if sq.kind != "bytes":
                raise Unsupported("bytearray of a non-bytes value")
            return self.new_list(sq.with_kind("list"))
        if name == "png.Writer":
            self.ctx.assumed.add("pypng: Writer(w, h, palette, bitdepth).write_array(file, a) writes a valid w x h paletted PNG when len(a) == w*h and every entry indexes the palette")
            return PngWriter(args[0], args[1], kwargs.get("palette"), kwargs.get("bitdepth"))
        if name == "Image.open":
            self.ctx.assumed.add("Pillow: Image.open(...).resize((w, h)).save(...) rewrites the PNG at w x h (nearest neighbour for paletted images)")
            return Opaque("pil-image")
        if name == "sys.exit":
            code = args[0] if args else 0
            raise RaiseEx("SystemExit", code)
        if name == "math.sqrt":
            return SqrtVal(self.num(args[0]))
        if name == "os.path.getsize":
            if args and args[0] == ("filename",):
                self.ctx.assumed.add("os.path.getsize(f.name) equals the number of bytes the stream delivers, and the stream is at offset 0")
                if not (isinstance(self.pos, int) and self.pos == 0):
                    raise Unsupported("getsize after reading")
                return self.L
            raise Unsupported("os.path.getsize of %r" % (args,))
        if name in ("codecs.decode", "codecs.encode"):
            enc = kwargs.get("encoding", args[1] if len(args) > 1 else None)
            if enc not in ("latin1", "latin-1", "latin_1", "iso-8859-1"):
                raise Unsupported("codec %r (only latin-1 is modelled)" % (enc,))
            self.ctx.assumed.add("codecs latin-1 is the identity between bytes 0..255 and code points 0..255")
            v = args[0]
            if name == "codecs.decode":
                if isinstance(v, bytes):
                    return v.decode("latin1")
                return self.as_seq(v).with_kind("str")
            if isinstance(v, FmtStr):
                if not v.is_ascii_structural():
                    raise Unsupported("encoding of opaque formatted text")
                return v
            if isinstance(v, str):
                try:
                    return v.encode("latin1")
                except UnicodeEncodeError:
                    raise RaiseEx("UnicodeEncodeError")
            sq = self.as_seq(v)
            self.check_bytes_range(sq, "latin-1 encode", node, exc="UnicodeEncodeError")
            return sq.with_kind("bytes")
        # spec-only
        if self.spec_mode:
            if name == "assume":
                # ghost assumption: part of the *definition* of the unit's precondition (e.g. "the token stream is a
                # valid encoding"); every use is listed in the evidence
                self.ctx.ghost_assumes.add((self.unit["name"] + "@" + self.unit["tag"], ast.unparse(node.args[0])))
                self.assume(to_z3(self.truthy(args[0])))
                return None
            if name == "implies":
                a, b = self.truthy(args[0]), self.truthy(args[1])
                return simp(z3.Implies(to_z3(a), to_z3(b)))
            if name == "fmt":
                return self.format_str(args[0], args[1:])
            if name == "ite":
                c = self.truthy(args[0])
                if isinstance(c, bool):
                    return args[1] if c else args[2]
                return simp(z3.If(c, to_z3(self.num(args[1])), to_z3(self.num(args[2]))))
            if name == "fill":
                img, a, b, v = args
                s = self.as_seq(img)
                arr = self.fresh("fill", "arr")
                j = self.fresh("j")
                a, b, v = to_z3(self.num(a)), to_z3(self.num(b)), to_z3(self.num(v))
                self.assume(z3.ForAll([j], arr[j] == z3.If(z3.And(j >= a, j < b), v, s.elem(j))), qf_also=False)
                return SymSeq(arr, 0, s.length, s.kind)
            if name == "bitat":
                # bit k of c: arithmetic when k is a constant, an uninterpreted symbol (range 0..1) when k is symbolic,
                # so that code and ghost decoder agree by congruence on symbolic bit positions
                c, k = self.num(args[0]), self.num(args[1])
                if isinstance(k, int):
                    if k < 0:
                        raise Unsupported("negative bit position")
                    return simp(to_z3(c) / (1 << k) % 2) if is_z3(c) else (c >> k) % 2
                t = BITAT(to_z3(c), to_z3(k))
                self.assume(z3.And(t >= 0, t <= 1))
                return t
            if name == "copy":
                # copy(dst, at, src, frm, ln): dst with dst[at+k] = src[frm+k] for 0 <= k < ln
                dst, at, src, frm, ln = args
                d, s_ = self.as_seq(dst), self.as_seq(src)
                arr = self.fresh("copy", "arr")
                j = self.fresh("j")
                at, frm, ln = to_z3(self.num(at)), to_z3(self.num(frm)), to_z3(self.num(ln))
                self.assume(z3.ForAll([j], arr[j] == z3.If(z3.And(j >= at, j < at + ln), s_.elem(frm + j - at), d.elem(j))), qf_also=False)
                return SymSeq(arr, 0, d.length, d.kind)
            if name == "inst":
                # inst('fact', term): the instance of a named entry fact (a universally quantified requires) at a term;
                # sound by construction (an instance of a hypothesis)
                q = self.facts[args[0]]
                return z3.substitute_vars(q.body(), to_z3(self.num(args[1])))
            if name == "store":
                img, a, v = args
                s = self.as_seq(img)
                return SymSeq(z3.Store(s.arr, simp(s.off + self.num(a)), to_z3(self.num(v))), s.off, s.length, s.kind)
            if name == "seq":
                # seq(length): a fresh unconstrained ghost sequence
                return SymSeq(self.fresh("ghost", "arr"), 0, self.num(args[0]), "list")
            if name in ("as_str", "as_bytes", "as_list"):
                return self.as_seq(args[0]).with_kind(name[3:])
            if name == "subseq":
                s, a, b = args
                s = self.as_seq(s)
                return SymSeq(s.arr, simp(s.off + self.num(a)), simp(self.num(b) - self.num(a)), s.kind)
        raise Unsupported("builtin %s" % name)

    def check_bytes_range(self, sq, what, node, exc="ValueError"):
        if self.spec_mode:
            return
        if isinstance(sq.length, int):
            conj = [z3.And(to_z3(sq.elem(i)) >= 0, to_z3(sq.elem(i)) <= 255) for i in range(sq.length)]
            ok = simp(z3.And(conj)) if conj else True
        else:
            j = self.fresh("j")
            ok = z3.ForAll([j], z3.Implies(z3.And(j >= 0, j < sq.length), z3.And(sq.elem(j) >= 0, sq.elem(j) <= 255)))
            # quantified: make it an obligation rather than a fork
            self.oblige("range-0-255/%s@L%d" % (what.replace(" ", "-"), node.lineno), ok)
            return
        if not self.branch(ok, "byterange@%d" % node.lineno):
            raise RaiseEx(exc, what + ": value outside 0..255")

    def format_str(self, fmtstring, args):
        if not isinstance(fmtstring, str):
            raise Unsupported(".format on a non-literal")
        pieces = []
        rest = fmtstring
        k = 0
        while rest:
            i = rest.find("{")
            if i < 0:
                pieces.append(rest)
                break
            pieces.append(rest[:i])
            if rest[i:i + 2] != "{}":
                raise Unsupported("format field other than {}")
            if k >= len(args):
                raise RaiseEx("IndexError")
            pieces.append(self.fmt_piece(args[k]))
            k += 1
            rest = rest[i + 2:]
        if "}" in "".join(p for p in pieces if isinstance(p, str) and p in fmtstring):
            pass
        return FmtStr(pieces)

    # methods -------------------------------------------------------------------------------
    def call_method(self, recv, name, args, kwargs, node, env):
        if isinstance(recv, InStream):
            if name == "read":
                return self.stream_read(args, node)
            if name == "close":
                return None
            if name in ("seek", "tell", "seekable", "truncate", "peek", "fileno", "readinto", "detach"):
                self.oblige("stream-contract/%s@L%d" % (name, node.lineno), False,
                            detail="input stream method %s() is not part of the stream contract that files and pipes share "
                                   "(standard input may be a pipe: not seekable)" % name)
        if isinstance(recv, OutStream):
            if name == "write":
                return self.stream_write(args[0], node)
            if name == "close":
                return None
        if isinstance(recv, ErrStream) and name == "write":
            return None
        if isinstance(recv, Opaque) and recv.what == "module-global:struct" and name == "unpack" and len(args) == 2 and isinstance(args[0], str):
            # struct.unpack for formats of single bytes ("B" unsigned, "b" signed, optional byte-order prefix): struct.error unless
            # the buffer has exactly one byte per item
            fmt = args[0].lstrip("<>=!@")
            if fmt and all(c in "bB" for c in fmt):
                sq = self.as_seq(args[1])
                if isinstance(sq.length, int):
                    if sq.length != len(fmt):
                        raise RaiseEx("error")
                elif not self.branch(simp(sq.length == len(fmt)), "struct-length"):
                    raise RaiseEx("error")
                out = []
                for k, c in enumerate(fmt):
                    b = self.seq_item(sq.with_kind("bytes"), k)
                    out.append(b if c == "B" else simp(z3.If(to_z3(b) >= 128, to_z3(b) - 256, to_z3(b))) if not isinstance(b, int) else (b - 256 if b >= 128 else b))
                return tuple(out)
            raise Unsupported("struct.unpack format %r" % args[0])
        if isinstance(recv, Opaque):
            if recv.what == "argparse-parser":
                return Opaque("argparse-namespace") if name == "parse_args" else None
            if recv.what == "pil-image":
                if name == "resize" and len(args) == 1 and not kwargs:
                    size = args[0]
                    self.png_resized = (self.num(size[0]), self.num(size[1]))
                    return Opaque("pil-image")
                if name in ("save", "close"):
                    return None
                # the assumed contract of Pillow covers open / resize(size) / save only (a palette image stays a palette image with
                # the same indices, lines repeated): any other operation on the picture is outside it
                self.png_altered = "%s(%s)" % (name, ", ".join(["..."] * len(args) + sorted(kwargs or {})))
                return Opaque("pil-image")
        if isinstance(recv, PngWriter) and name == "write_array":
            f, arr = args
            if not isinstance(f, OutStream):
                raise Unsupported("write_array to something that is not the output file")
            sq = self.as_seq(arr)
            self.png = dict(width=recv.width, height=recv.height, palette=recv.palette, bitmap=SymSeq(sq.arr, sq.off, sq.length, "list"))
            return None
        if isinstance(recv, str) and name == "format":
            return self.format_str(recv, args)
        if isinstance(recv, str) and name == "join":
            (lst,) = args
            if recv != "":
                raise Unsupported("join with a separator")
            s = self.as_seq(lst)
            if s.kind != "charlist":
                raise Unsupported("join of a list that is not a list of single characters")
            return s.with_kind("str")
        if isinstance(recv, ListRef):
            cell = self.heap[recv.addr]
            if name == "append":
                (v,) = args
                if isinstance(cell, list):
                    cell.append(v)
                    return None
                v = self.num(v)
                self.heap[recv.addr] = SymSeq(z3.Store(cell.arr, simp(cell.off + cell.length), to_z3(v)), cell.off,
                                              simp(cell.length + 1), cell.kind)
                return None
            if name == "extend" and not isinstance(cell, list):
                (v,) = args
                other = self.as_seq(v)
                r = self.seq_concat(SymSeq(cell.arr, cell.off, cell.length, "bytes"), SymSeq(other.arr, other.off, other.length, "bytes"))
                self.heap[recv.addr] = r.with_kind(cell.kind)
                return None
        if isinstance(recv, (SymSeq, str)) and name == "index":
            return self.str_index(recv, args, node)
        if isinstance(recv, (SymSeq, str)) and name == "rstrip" and not args:
            if isinstance(recv, str):
                return recv.rstrip()
            # result only described by: a prefix of the receiver
            s = recv
            k = self.fresh("rstrip_len")
            self.assume(z3.And(k >= 0, k <= to_z3(s.length)))
            return SymSeq(s.arr, s.off, k, s.kind)
        raise Unsupported("method %s on %r" % (name, recv))

    def str_index(self, recv, args, node):
        s = self.as_seq(recv)
        (needle,) = args
        if not (isinstance(needle, str) and len(needle) == 1):
            raise Unsupported("str.index with a needle that is not one character")
        c = ord(needle)
        ln = to_z3(s.length)
        j = self.fresh("j")
        absent = z3.ForAll([j], z3.Implies(z3.And(j >= 0, j < ln), s.elem(j) != c))
        ch = self.choose(2, "index-found@%d" % node.lineno)
        if ch == 1:
            self.assume(absent, qf_also=False)
            raise RaiseEx("ValueError", "substring not found")
        i = self.fresh("idx")
        self.assume(z3.And(i >= 0, i < ln, s.elem(i) == c))
        self.assume(z3.ForAll([j], z3.Implies(z3.And(j >= 0, j < i), s.elem(j) != c)), qf_also=False)
        return i

    def stream_read(self, args, node):
        if not args:
            k = None
        else:
            k = self.num(args[0])
        if self.spec_mode:
            raise Unsupported("read() in a specification")
        pos, L = to_z3(self.pos), self.L
        rem = simp(z3.If(L - pos > 0, L - pos, 0))
        if k is None:
            cnt = rem
        else:
            if isinstance(k, int):
                if k < 0:
                    raise Unsupported("read(negative)")
            else:
                self.require_nonneg(k, "read() size")
            kk = to_z3(k)
            cnt = simp(z3.If(kk < rem, kk, rem))
        r = SymSeq(self.inp, self.pos, cnt, "bytes")
        self.pos = simp(self.pos + cnt)
        self.ctx.assumed.add("stream.read(k) returns min(k, remaining) bytes and advances by that many (buffered file / pipe)")
        if isinstance(cnt, int) and cnt == 1 or (k is not None and isinstance(k, int) and k == 1):
            pass
        return r

    def stream_write(self, data, node):
        if isinstance(data, FmtStr):
            if not (isinstance(self.n, int) and self.n == 0):
                raise Unsupported("formatted header written after pixel data")
            self.hdr = data if self.hdr is None else FmtStr(self.hdr.pieces + data.pieces)
            return None
        if isinstance(data, str):
            raise RaiseEx("TypeError", "write of str to a binary stream")
        if isinstance(data, bytes) and isinstance(self.n, int) and self.n == 0:
            # constant header text
            self.hdr = FmtStr((self.hdr.pieces if self.hdr else []) + [data.decode("latin1")])
            return None
        s = self.as_seq(data)
        if s.kind != "bytes":
            raise RaiseEx("TypeError", "write of non-bytes")
        if isinstance(s.length, int):
            for i in range(s.length):
                self.out_append(s.elem(i))
            return None
        arr = self.fresh("out", "arr")
        j = self.fresh("j")
        n0 = to_z3(self.n)
        self.assume(z3.ForAll([j], arr[j] == z3.If(z3.And(j >= n0, j < n0 + s.length), s.elem(j - n0), self.out[j])), qf_also=False)
        self.out = arr
        self.n = simp(n0 + s.length)
        return None

    # --------------------------------------------------------------------------------------
    # statements

    def exec_block(self, stmts, env):
        for st in stmts:
            self.exec(st, env)

    def exec(self, node, env):
        m = getattr(self, "s_" + type(node).__name__, None)
        if m is None:
            raise Unsupported("statement %s at line %s" % (type(node).__name__, node.lineno))
        m(node, env)

    def s_Expr(self, node, env):
        if isinstance(node.value, ast.Constant):
            return
        self.eval(node.value, env)

    def s_Pass(self, node, env):
        return

    def s_Return(self, node, env):
        raise ReturnEx(self.eval(node.value, env) if node.value is not None else None)

    def s_Break(self, node, env):
        raise BreakEx()

    def s_Continue(self, node, env):
        raise ContinueEx()

    def s_Raise(self, node, env):
        exc = node.exc
        name = "Exception"
        if isinstance(exc, ast.Call) and isinstance(exc.func, ast.Name):
            name = exc.func.id
        elif isinstance(exc, ast.Call) and isinstance(exc.func, ast.Attribute):
            name = exc.func.attr
        elif isinstance(exc, ast.Name):
            name = exc.id
        raise RaiseEx(name)

    def s_FunctionDef(self, node, env):
        env.vars[node.name] = Closure(node, env, (env.qualname + "." if env.qualname else "") + node.name)

    def s_Assign(self, node, env):
        v = self.eval(node.value, env)
        for t in node.targets:
            self.assign(t, v, env)

    def assign(self, target, v, env):
        if isinstance(target, ast.Name):
            self.bind(env, target.id, v)
        elif isinstance(target, (ast.Tuple, ast.List)):
            n = len(target.elts)
            if any(isinstance(t, ast.Starred) for t in target.elts):
                raise Unsupported("starred unpacking")
            if isinstance(v, ListRef) and isinstance(self.heap[v.addr], list):
                v = tuple(self.heap[v.addr])
            if isinstance(v, (ListRef, SymSeq)):
                # unpacking a sequence of integers / characters: ValueError unless it has exactly n elements
                sq = self.as_seq(v)
                if isinstance(sq.length, int):
                    if sq.length != n:
                        raise RaiseEx("ValueError")
                elif not self.branch(simp(sq.length == n), "unpack-length"):
                    raise RaiseEx("ValueError")
                v = tuple(self.seq_item(sq, k) for k in range(n))
            if not isinstance(v, tuple):
                raise Unsupported("unpacking")
            if len(v) != n:
                raise RaiseEx("ValueError")
            for t, x in zip(target.elts, v):
                self.assign(t, x, env)
        elif isinstance(target, ast.Subscript):
            base = self.eval(target.value, env)
            if not isinstance(base, ListRef):
                raise Unsupported("subscript assignment to a non-list")
            idx = self.num(self.eval(target.slice, env))
            cell = self.heap[base.addr]
            if isinstance(cell, list):
                if not isinstance(idx, int):
                    raise Unsupported("symbolic index store into object list")
                cell[idx] = v
                return
            if not self.spec_mode:
                inb = simp(z3.And(to_z3(idx) >= -to_z3(cell.length), to_z3(idx) < to_z3(cell.length)))
                if not self.branch(inb, "store-index@%d" % target.lineno):
                    raise RaiseEx("IndexError")
                if not (isinstance(idx, int) and idx >= 0):
                    if self.branch(simp(to_z3(idx) < 0), "negidx"):
                        idx = simp(idx + cell.length)
            if cell.kind == "charlist":
                sv = self.as_seq(v)
                if not (isinstance(sv.length, int) and sv.length == 1 and sv.kind == "str"):
                    raise Unsupported("list of characters receives a non-character")
                v = sv.elem(0)
            else:
                v = self.num(v)
            self.heap[base.addr] = SymSeq(z3.Store(cell.arr, simp(cell.off + idx), to_z3(v)), cell.off, cell.length, cell.kind)
        else:
            raise Unsupported("assignment target %s" % type(target).__name__)

    def bind(self, env, name, v):
        # Python scoping: assignment binds in the current function scope (no nonlocal/global in the subset)
        env.vars[name] = v

    def s_AugAssign(self, node, env):
        if not isinstance(node.target, ast.Name):
            raise Unsupported("augmented assignment target")
        cur = self.lookup(node.target.id, env)
        v = self.eval(node.value, env)
        if isinstance(cur, ListRef) and isinstance(node.op, ast.Add):
            # list += iterable : in-place extend
            cell = self.as_seq(cur)
            other = self.as_seq(v)
            r = self.seq_concat(SymSeq(cell.arr, cell.off, cell.length, "bytes"), SymSeq(other.arr, other.off, other.length, "bytes"))
            self.heap[cur.addr] = r.with_kind("list")
            return
        self.bind(env, node.target.id, self.binop(node.op, cur, v, node))

    def s_If(self, node, env):
        t = self.truthy(self.eval(node.test, env))
        if self.spec_mode and not isinstance(t, bool):
            # ghost code: merge both arms for simple assignments
            self.ghost_if(node, t, env)
            return
        if self.branch(t, "if@%d" % node.lineno):
            self.exec_block(node.body, env)
        else:
            self.exec_block(node.orelse, env)

    def ghost_if(self, node, t, env):
        def run(block):
            sub = Env(env, env.qualname)
            self.exec_block(block, sub)
            return sub.vars
        a = run(node.body)
        b = run(node.orelse)
        for name in set(a) | set(b):
            va = a.get(name, env.lookup(name) if env.has(name) else None)
            vb = b.get(name, env.lookup(name) if env.has(name) else None)
            if va is None or vb is None:
                raise Unsupported("ghost variable %s assigned on one arm only" % name)
            if isinstance(va, SymSeq) or isinstance(vb, SymSeq):
                sa, sb = self.as_seq(va), self.as_seq(vb)
                arr = self.fresh("gsel", "arr")
                j = self.fresh("j")
                self.assume(z3.ForAll([j], arr[j] == z3.If(t, sa.elem(j), sb.elem(j))), qf_also=False)
                env.vars[name] = SymSeq(arr, 0, simp(z3.If(t, to_z3(sa.length), to_z3(sb.length))), sa.kind)
            else:
                env.vars[name] = simp(z3.If(t, to_z3(self.num(va)), to_z3(self.num(vb))))

    def s_With(self, node, env):
        for item in node.items:
            v = self.eval(item.context_expr, env)
            if not isinstance(v, (InStream, OutStream)):
                raise Unsupported("with over something that is not a file")
            if item.optional_vars is not None:
                self.assign(item.optional_vars, v, env)
        self.exec_block(node.body, env)

    # ---- loops
    def loop_ordinal(self, node, env):
        key = env.qualname
        table = self.ctx.loop_table(self.unit["module"], key)
        return table[id(node)]

    def s_For(self, node, env):
        if node.orelse:
            raise Unsupported("for-else")
        it = self.eval(node.iter, env)
        ordinal = self.loop_ordinal(node, env)
        spec = self.loop_spec(env, ordinal)
        if spec is None:
            # complete unrolling of a constant-length iteration
            items = None
            if isinstance(it, tuple) and it and it[0] == "range" and isinstance(it[1], int) and it[1] <= UNROLL_MAX:
                items = list(range(it[1]))
            elif isinstance(it, ListRef) and isinstance(self.heap[it.addr], list):
                items = list(self.heap[it.addr])
            elif not isinstance(it, tuple) and isinstance(self.as_seq(it).length, int) and self.as_seq(it).length <= UNROLL_MAX:
                s = self.as_seq(it)
                items = [self.seq_item(s, k) for k in range(s.length)]
            if items is not None:
                self.ctx.unrolled.add("%s.%s loop %d (%d iterations)" % (self.unit["module"], env.qualname, ordinal, len(items)))
                for x in items:
                    self.assign(node.target, x, env)
                    try:
                        self.exec_block(node.body, env)
                    except BreakEx:
                        break
                    except ContinueEx:
                        continue
                return
            spec = self.trivial_spec(node, env, ordinal)
        if not isinstance(node.target, ast.Name):
            raise Unsupported("loop target")
        if isinstance(it, tuple) and it and it[0] == "range":
            N = it[1]
            elem = None
        else:
            seq = self.as_seq(it)
            N = seq.length
            elem = seq
        counter = spec.get("counter", node.target.id)
        self.cut_loop(node, env, ordinal, spec, counter=counter, N=N, elem=elem)

    def trivial_spec(self, node, env, ordinal):
        """No contract for this loop (the code moved away from its sidecar): cut it with the trivial invariant.  Sound
        (everything the loop may write is havocked) but weak: a failure downstream is only reported as a violation if a
        replay on the real code confirms it, otherwise the check answers 'cannot decide'."""
        self.ctx.degraded.add("loop %d of %s.%s (line %d) has no invariant in the sidecar: cut with the trivial invariant"
                              % (ordinal, self.unit["module"], env.qualname, node.lineno))
        return {"inv": []}

    def s_While(self, node, env):
        if node.orelse:
            raise Unsupported("while-else")
        ordinal = self.loop_ordinal(node, env)
        spec = self.loop_spec(env, ordinal)
        if spec is None:
            spec = self.trivial_spec(node, env, ordinal)
        self.cut_loop(node, env, ordinal, spec, counter=None, N=None, elem=None)

    def loop_spec(self, env, ordinal):
        c = self.ctx.contract_for(self.unit["module"], env.qualname, self.unit["tag"]) if env.qualname != self.unit["qualname"] else self.unit
        if c is None:
            return None
        return c.get("loops", {}).get(ordinal)

    def cut_loop(self, node, env, ordinal, spec, counter, N, elem):
        is_for = isinstance(node, ast.For)
        lid = "loop%d" % ordinal
        invs = spec.get("inv", [])
        # ghost code before the loop
        if spec.get("ghost_before"):
            self.run_ghost(spec["ghost_before"], env)
        # initiation
        ov0 = {counter: 0} if is_for else {}
        inv_known = [iv.get("known") if isinstance(iv, dict) else None for iv in invs]
        invs = [iv["text"] if isinstance(iv, dict) else iv for iv in invs]
        undefined_at_head = set()
        for i, inv in enumerate(invs):
            self.overlay.append(ov0)
            try:
                try:
                    g = self.truthy(self.eval_spec(inv, env))
                except Unsupported as e:
                    if not str(e).startswith("unbound name"):
                        raise
                    # the invariant speaks about a local that does not exist yet when the loop is reached (its
                    # initialisation moved into the loop body): state the invariant says is carried across iterations
                    # is not: the initiation obligation fails, it is not "unsupported"
                    undefined_at_head.add(i)
                    self.oblige("%s.inv%d.init" % (lid, i), False, detail="%s   [%s at the loop head: the invariant cannot be established]" % (inv, e))
                    continue
            finally:
                self.overlay.pop()
            self.oblige("%s.inv%d.init" % (lid, i), g, detail=inv)
        # havoc
        mods, lists, t_in, t_out = self.ctx.loop_mods(self.unit["module"], env.qualname, node)
        for name in sorted(mods):
            if name == counter and is_for:
                continue
            if not env.has(name):
                continue
            # binding lives in the scope that owns it
            owner = env
            while name not in owner.vars:
                owner = owner.parent
            owner.vars[name] = self.havoc_value(owner.vars[name], name)
        for name in sorted(lists):
            if env.has(name):
                v = env.lookup(name)
                if isinstance(v, ListRef):
                    cell = self.heap[v.addr]
                    if isinstance(cell, list):
                        raise Unsupported("object list %s mutated in a cut loop" % name)
                    ln = self.fresh(name + "_len")
                    self.assume(ln >= 0)
                    self.heap[v.addr] = SymSeq(self.fresh(name, "arr"), 0, ln if name in self.ctx.loop_len_mods(self.unit["module"], env.qualname, node) else cell.length, cell.kind)
        if t_in:
            self.pos = self.fresh("pos")
            self.assume(z3.And(self.pos >= 0, self.pos <= self.L))
        if t_out:
            self.out = self.fresh("out", "arr")
            self.n = self.fresh("n")
            self.assume(self.n >= 0)
        for g in spec.get("ghost_vars", []):
            if env.has(g):
                env.vars[g] = self.havoc_value(env.lookup(g), g)
        k = None
        if is_for:
            k = self.fresh(counter)
            Nz = to_z3(N)
            self.assume(z3.And(k >= 0, z3.Or(k <= Nz, k == 0)))
        ovk = {counter: k} if is_for else {}
        self.overlay.append(ovk)
        try:
            for i, inv in enumerate(invs):
                if i in undefined_at_head:
                    continue
                self.assume(to_z3(self.truthy(self.eval_spec(inv, env))), qf_also=True)
        finally:
            self.overlay.pop()
        self.overlay.append(ovk)
        try:
            self.lemmas(spec.get("lemmas"), env, lid)
            for u in spec.get("use", []):
                self.assume(to_z3(self.truthy(self.eval_spec(u, env))))
        finally:
            self.overlay.pop()
        variant0 = None
        if spec.get("decreases") is not None and not is_for:
            variant0 = self.num(self.eval_spec(spec["decreases"], env))
        # a second candidate measure read off the loop test itself (`a < b` -> b - a ...): auxiliary, used only to excuse a failing
        # contract variant when the code was rewritten so that another measure decreases (see vcheck/decoder_props.py)
        alt_expr, alt0 = None, None
        if not is_for and isinstance(node.test, ast.Compare) and len(node.test.ops) == 1:
            a, b, op = node.test.left, node.test.comparators[0], node.test.ops[0]
            if isinstance(op, ast.Lt):
                alt_expr = ast.BinOp(b, ast.Sub(), a)
            elif isinstance(op, ast.LtE):
                alt_expr = ast.BinOp(ast.BinOp(b, ast.Sub(), a), ast.Add(), ast.Constant(1))
            elif isinstance(op, ast.Gt):
                alt_expr = ast.BinOp(a, ast.Sub(), b)
            elif isinstance(op, ast.GtE):
                alt_expr = ast.BinOp(ast.BinOp(a, ast.Sub(), b), ast.Add(), ast.Constant(1))
            if alt_expr is not None:
                ast.fix_missing_locations(ast.Expression(alt_expr))
                try:
                    alt0 = self.num(self.eval(alt_expr, env))
                except (Unsupported, RaiseEx):
                    alt_expr = None
        # test
        if is_for:
            go = self.branch(simp(k < to_z3(N)), "%s.iter" % lid)
        else:
            go = self.branch(self.truthy(self.eval(node.test, env)), "%s.iter" % lid)
        if not go:
            if is_for:
                # after a for loop the Python variable keeps its last value (or is unbound): do not rely on it
                self.bind(env, node.target.id, Unknown("loop variable %s after its loop" % node.target.id))
                self.exit_counter = k
            if spec.get("ghost_after"):
                self.run_ghost(spec["ghost_after"], env)
            return
        if is_for:
            self.bind(env, node.target.id, k if elem is None else self.seq_item(elem, k))
        if spec.get("ghost_body_start"):
            self.overlay.append(ovk)
            try:
                self.run_ghost(spec["ghost_body_start"], env)
            finally:
                self.overlay.pop()
        try:
            self.exec_block(node.body, env)
        except ContinueEx:
            pass
        except BreakEx:
            if spec.get("ghost_after"):
                self.run_ghost(spec["ghost_after"], env)
            return
        if spec.get("ghost_body_end"):
            self.overlay.append(ovk)
            try:
                self.run_ghost(spec["ghost_body_end"], env)
            finally:
                self.overlay.pop()
        ov1 = {counter: simp(k + 1)} if is_for else {}
        if is_for:
            # the loop variable inside invariants denotes the number of completed iterations
            pass
        for i, inv in enumerate(invs):
            self.overlay.append(ov1)
            try:
                g = self.truthy(self.eval_spec(inv, env))
                self.oblige("%s.inv%d.preserve" % (lid, i), g, detail=inv, known=inv_known[i], env=env)
            finally:
                self.overlay.pop()
        if variant0 is not None:
            if alt_expr is not None:
                try:
                    a1 = self.num(self.eval(alt_expr, env))
                    ga = simp(z3.And(to_z3(a1) < to_z3(alt0), to_z3(alt0) >= 0))
                    ga = ga if isinstance(ga, bool) else ga
                    va = "proved" if ga is True else solver.prove(self.pc, z3.BoolVal(ga) if isinstance(ga, bool) else ga, cheap=True)[0]
                    self.obligations.append(Obligation("%s/%s/%s.variant.from-loop-test" % (self.unit["tag"], self.unit["name"], lid), va, "z3(aux)", 0.0,
                                                       None, "auxiliary measure " + ast.unparse(alt_expr), ",".join(self.pathsig)))
                except (Unsupported, RaiseEx):
                    pass
            v1 = self.num(self.eval_spec(spec["decreases"], env))
            self.oblige("%s.variant.decreases" % lid, simp(z3.And(to_z3(v1) < to_z3(variant0), to_z3(variant0) >= 0)), detail=spec["decreases"])
        elif not is_for and self.unit.get("check_termination"):
            self.oblige("%s.variant.missing" % lid, False)
        raise PathEnd()

    def havoc_value(self, old, name):
        if isinstance(old, bool) or (is_z3(old) and z3.is_bool(old)):
            return self.fresh(name, "bool")
        if is_int(old):
            return self.fresh(name)
        if isinstance(old, SymSeq):
            if isinstance(old.length, int):
                return SymSeq(self.fresh(name, "arr"), 0, old.length, old.kind)
            ln = self.fresh(name + "_len")
            self.assume(ln >= 0)
            return SymSeq(self.fresh(name, "arr"), 0, ln, old.kind)
        if isinstance(old, (ListRef, Closure, InStream, OutStream)):
            return old
        if isinstance(old, str):
            return SymSeq(self.fresh(name, "arr"), 0, self._nonneg(name + "_len"), "str")
        return Unknown("%s was %s before the loop" % (name, type(old).__name__))

    def _nonneg(self, name):
        v = self.fresh(name)
        self.assume(v >= 0)
        return v

    def run_ghost(self, code, env):
        tree = self.ctx.parse_ghost(code)
        self.spec_mode += 1
        try:
            self.exec_block(tree.body, env)
        finally:
            self.spec_mode -= 1


class SpecFun:
    def __init__(self, node):
        self.node = node


BITAT = z3.Function("BITAT", z3.IntSort(), z3.IntSort(), z3.IntSort())
MUL = z3.Function("MUL", z3.IntSort(), z3.IntSort(), z3.IntSort())

BUILTINS = {"ord", "chr", "len", "range", "int", "bytes", "min", "max", "print", "open", "bytearray", "round"}
SPEC_BUILTINS = {"forallq", "bitat", "copy", "inst", "assume", "forall", "exists", "implies", "fmt", "ite", "fill", "store", "seq", "subseq", "as_str", "as_bytes", "as_list"}
