"""Value domain of pyvc (integer / sequence domain).

Python ints are mathematical -> z3 Int.  Sequences (bytes, latin-1 str, list of int) are
(array, offset, length) views over z3 arrays Int->Int.  Concrete Python values stay native.
"""
import z3


class Unsupported(Exception):
    """Syntax or operation outside the verified subset: the checker cannot decide (exit 3)."""


class SymSeq:
    """Immutable sequence value: element i is arr[off + i], 0 <= i < length."""

    __slots__ = ("arr", "off", "length", "kind")

    def __init__(self, arr, off, length, kind):
        self.arr = arr
        self.off = off
        self.length = length
        self.kind = kind  # 'bytes' | 'str' | 'list'

    def elem(self, i):
        return z3.Select(self.arr, simp(self.off + i))

    def with_kind(self, kind):
        return SymSeq(self.arr, self.off, self.length, kind)

    def __repr__(self):
        return "SymSeq(%s,len=%s)" % (self.kind, self.length)


class ListRef:
    """Reference to a mutable list in the machine heap."""

    __slots__ = ("addr",)

    def __init__(self, addr):
        self.addr = addr


class FmtStr:
    """A formatted text: list of pieces, each a native str, ('dec', int-term) or ('opaque', tag)."""

    def __init__(self, pieces):
        out = []
        for p in pieces:
            if isinstance(p, str) and out and isinstance(out[-1], str):
                out[-1] += p
            elif p != "":
                out.append(p)
        self.pieces = out

    def is_ascii_structural(self):
        return all(isinstance(p, str) or p[0] == "dec" for p in self.pieces)

    def __repr__(self):
        return "FmtStr(%r)" % (self.pieces,)


class InStream:
    name = "inp"


class OutStream:
    name = "out"


class ErrStream:
    name = "stderr"


class Unknown:
    """Havocked variable of unknown type: any use is unsupported."""

    def __init__(self, why):
        self.why = why


class SqrtVal:
    rounded = False

    def __init__(self, x):
        self.x = x


class Closure:
    def __init__(self, node, env, qualname):
        self.node = node
        self.env = env
        self.qualname = qualname


class ModuleRef:
    def __init__(self, name):
        self.name = name


class Builtin:
    def __init__(self, name):
        self.name = name

    def __repr__(self):
        return "Builtin(%s)" % self.name


class BoundMethod:
    def __init__(self, recv, name):
        self.recv = recv
        self.name = name


def is_z3(v):
    return isinstance(v, z3.ExprRef)


def is_int(v):
    return (isinstance(v, int) and not isinstance(v, bool)) or (is_z3(v) and z3.is_int(v))


def is_boolish(v):
    return isinstance(v, bool) or (is_z3(v) and z3.is_bool(v))


def to_z3(v):
    if is_z3(v):
        return v
    if isinstance(v, bool):
        return z3.BoolVal(v)
    if isinstance(v, int):
        return z3.IntVal(v)
    raise Unsupported("cannot convert %r to a solver term" % (v,))


def simp(v):
    if is_z3(v):
        s = z3.simplify(v)
        if z3.is_int_value(s):
            return s.as_long()
        if z3.is_true(s):
            return True
        if z3.is_false(s):
            return False
        return s
    return v


def conc_array(values):
    """z3 array holding the given (int or term) values at 0..len-1."""
    a = z3.K(z3.IntSort(), z3.IntVal(0))
    for i, v in enumerate(values):
        a = z3.Store(a, i, to_z3(v))
    return a


def seq_of_pystr(s):
    return SymSeq(conc_array([ord(c) for c in s]), 0, len(s), "str")


def seq_of_pybytes(b):
    return SymSeq(conc_array(list(b)), 0, len(b), "bytes")


class Opaque:
    """Result of an external (non-coco) call whose value the contracts do not speak about (argparse parser, PIL image).
    Any method call on it returns another Opaque; listed in the evidence as an assumed external."""

    def __init__(self, what):
        self.what = what

    def __repr__(self):
        return "<external %s>" % self.what


class PngWriter:
    def __init__(self, width, height, palette, bitdepth):
        self.width, self.height, self.palette, self.bitdepth = width, height, palette, bitdepth
