"""Checks decided by executing the real transpiler code on opaque parts (tx/): per-class and per-pass obligations."""
import json
import os
import subprocess
import sys

ROOT = os.path.dirname(os.path.dirname(os.path.abspath(__file__)))

TRUSTED = [
    "CPython executes the real methods; opaque parts trap every use outside the contracted interface (checked parametricity)",
    "structural induction over the AST (DESIGN.md 6.3): per-class contracts compose to all finite trees - stated on paper",
    "the sidecar's transcription of BASIC09 statement syntax and of the Color BASIC rules into expected templates",
    "contract of every part: basic09_text() is non-empty text, visit() presents the part's own sub-tree",
]


def run_tx(prop, only=None, tier=None):
    repo = os.environ.get("VERIF_REPO", "/repo")
    env = dict(os.environ)
    env["PYTHONPATH"] = repo + os.pathsep + ROOT
    env["PYTHONHASHSEED"] = env.get("PYTHONHASHSEED", "0")
    if tier:
        env["VERIF_TIER"] = tier
    cmd = ["/venv/bin/python", "-m", "tx.prop", prop]
    p = subprocess.run(cmd, capture_output=True, text=True, env=env, cwd=ROOT, timeout=3000)
    if p.returncode != 0:
        return None, p.stderr[-1500:]
    return json.loads(p.stdout)["obligations"], None


def run(prop, tier, rep):
    obs, err = run_tx(prop, tier=tier)
    if obs is None:
        rep.errors.append("tx harness failed (cannot attach to the tree under test): " + err)
        return
    kf = json.load(open(os.path.join(ROOT, "known_findings.json")))
    cf = kf.get("class_findings", {})
    present = {}
    for o in obs:
        backend = "cpython-exec-on-opaque-parts"
        bounded = o.get("bounded")
        for h in o.get("known_hits", []) or []:
            present.setdefault(h, []).append(o["id"])
        rec = cf.get(o.get("finding_key") or o["id"])
        known = (not o["ok"]) and rec is not None and rec["recorded_actual"] == o["actual"]
        if known:
            present.setdefault(rec["finding"], []).append(o["id"])
        if bounded:
            # a bounded stand-in: reported, can raise a violation, but never counted among the discharged obligations
            rep.bounded.append(dict(check=prop + "/" + o["id"], bound=bounded, held=bool(o["ok"] or known), known_finding=rec["finding"] if known else None))
            if o["ok"] or known:
                continue
        elif o["ok"]:
            rep.add_obligation(prop + "/" + o["id"], "proved", backend, 0.0, o.get("detail", ""))
            continue
        elif known:
            # the obligation FAILS, with exactly the defective output recorded for a known finding: neither discharged nor a new violation
            rep.add_obligation(prop + "/" + o["id"], "known-finding", "cpython-exec-on-opaque-parts (recorded defective output, unchanged)", 0.0, rec["finding"])
            continue
        else:
            rep.add_obligation(prop + "/" + o["id"], "refuted", backend, 0.0, o.get("detail", ""))
        rep.violation(prop + "/" + o["id"], dict(detail=o.get("detail", ""), expected=o["expected"], actual=o["actual"],
                                                 recorded_known_output=rec["recorded_actual"] if rec else None,
                                                 how="the real method of the tree under test was executed on opaque parts; "
                                                     "re-run with ./check %s --replay <this file>" % prop,
                                                 obligation_local_id=o["id"]), True)
    for fid, ids in sorted(present.items()):
        rep.known_finding(fid, "%d obligations, e.g. %s" % (len(ids), ids[0]))
    # what is under contract: real classes (methods basic09_text / visit / is_str_expr) and contract groups of real functions
    groups = {}
    for o in obs:
        parts = o["id"].split("/")
        if parts[0] in ("T", "V", "K") and len(parts) > 1:
            cls = parts[2] if parts[1] == "subst" and len(parts) > 2 else parts[1]
            cls = cls.split(" in context")[0]
            key = "coco.b09.elements.%s.%s" % (cls, {"T": "basic09_text", "V": "visit", "K": "is_str_expr"}[parts[0]])
        else:
            key = "contract group `%s` (tx/p_%s.py)" % (parts[0], prop.lower())
        g = groups.setdefault(key, [0, 0])
        g[0] += 1
        g[1] += 1 if o["ok"] else 0
    rep.functions = [dict(function=k, obligations=v[0], holding=v[1]) for k, v in sorted(groups.items())]
    rep.assumptions += ["every part of a construct honours its own contract (basic09_text returns its text, visit presents its sub-tree): "
                        "discharged per class by the same obligations, composed by structural induction (paper, DESIGN 6.3)",
                        "the real parser delivers constructs of the classes under contract (F2 obligations check the rules exercised, not every sentence)",
                        "BASIC09 syntax and precedence as transcribed in tx/b09syntax.py and tx/p_c01.py (B09_LEVELS); Color BASIC precedence as in CB_LEVELS"]
    rep.trusted_base += TRUSTED
    rep.samples = [dict(obligation=o["id"], expected=o["expected"], actual=o["actual"], ok=o["ok"]) for o in obs[:8]]
    rep.extra["families"] = {}
    for o in obs:
        f = o.get("family", "?")
        rep.extra["families"][f] = rep.extra["families"].get(f, 0) + 1


def replay(prop, path, rep):
    d = json.load(open(path))
    oid = d.get("obligation_local_id")
    obs, err = run_tx(prop)
    if obs is None:
        print("harness failed:", err)
        return 3
    for o in obs:
        if o["id"] == oid:
            print(json.dumps(dict(id=oid, ok=o["ok"], expected=o["expected"], actual=o["actual"]), ensure_ascii=False)[:2000])
            return 0 if o["ok"] else 1
    print("obligation %s no longer exists" % oid)
    return 3
