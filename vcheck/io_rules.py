"""Static frame rules on how the decoders open files (shared by C12, C18, C19): the result must be a function of the input
bytes and the options, and the same through files and pipes.  That needs: inputs opened for plain buffered reading, outputs
opened truncating; no append / update modes, no unbuffered raw streams (a raw read returns whatever is available *now*)."""
import ast
import os

DECODERS = ("hrstoppm", "maxtoppm", "mgetoppm", "cm3toppm", "rattoppm", "pixtopgm", "veftopng", "util")
PLAIN = ("r", "rb", "w", "wb", "rt", "wt")


def scan(repo):
    problems = []
    for name in DECODERS:
        path = os.path.join(repo, "coco", name + ".py")
        tree = ast.parse(open(path).read())
        for n in ast.walk(tree):
            if not isinstance(n, ast.Call):
                continue
            f = ast.unparse(n.func)
            if f in ("argparse.FileType", "FileType"):
                mode = n.args[0].value if n.args and isinstance(n.args[0], ast.Constant) else None
                extra = len(n.args) > 1 or any(k.arg in ("bufsize", "buffering") for k in n.keywords)
                if mode not in PLAIN or extra:
                    problems.append("%s.py:%d argparse.FileType(%s): only plain buffered read / truncating write modes" % (name, n.lineno, ", ".join(ast.unparse(a) for a in n.args)))
            elif f == "open":
                mode = n.args[1].value if len(n.args) > 1 and isinstance(n.args[1], ast.Constant) else ("r" if len(n.args) == 1 else None)
                for k in n.keywords:
                    if k.arg == "mode" and isinstance(k.value, ast.Constant):
                        mode = k.value.value
                buf = [k for k in n.keywords if k.arg == "buffering"] or (n.args[2:3])
                if mode not in PLAIN or buf:
                    problems.append("%s.py:%d open(%s): only plain buffered read / truncating write modes" % (name, n.lineno, ", ".join(ast.unparse(a) for a in n.args)))
            elif f == "os.open":
                flags = ast.unparse(n.args[1]) if len(n.args) > 1 else ""
                if ("O_WRONLY" in flags or "O_RDWR" in flags) and "O_TRUNC" not in flags:
                    problems.append("%s.py:%d os.open(%s) writes without O_TRUNC" % (name, n.lineno, flags))
            elif f in ("os.fdopen", "io.FileIO", "FileIO", "io.open_code"):
                problems.append("%s.py:%d %s(...): raw / descriptor-level streams are outside the stream contract" % (name, n.lineno, f))
    return problems
