"""Batch form of native_decoder.py: runs the real decoders of the tree under test on many concrete inputs in one
process (executed by /venv/bin/python with the tree first on sys.path).  stdin: JSON {repo, requests:[{tool, input_b64,
opts}]}; stdout: JSON list of outcomes.  Used by the thorough tier's bounded differential stand-in only."""
import base64
import io
import json
import os
import sys
import tempfile


def one(req):
    data = base64.b64decode(req["input_b64"])
    tool = req["tool"]
    o = req.get("opts", {})
    out = io.BytesIO()
    res = {"outcome": "return", "result": None}
    saved_err, saved_out = sys.stderr, sys.stdout
    sys.stderr, sys.stdout = io.StringIO(), io.StringIO()
    try:
        try:
            if tool == "hrstoppm":
                from coco import hrstoppm
                hrstoppm.convert(io.BytesIO(data), out, o.get("width", 320), o.get("height", 192), o.get("skip"))
            elif tool == "rattoppm":
                from coco import rattoppm
                rattoppm.convert(io.BytesIO(data), out)
            elif tool == "mgetoppm":
                from coco import mgetoppm
                mgetoppm.convert(io.BytesIO(data), out)
            elif tool == "cm3toppm":
                from coco import cm3toppm
                cm3toppm.convert(io.BytesIO(data), out)
            elif tool == "maxtoppm":
                from coco import maxtoppm
                res["result"] = maxtoppm.convert(io.BytesIO(data), out, o.get("arte", 0), o.get("newsroom", False), o.get("cols", 256),
                                                 o.get("rows"), o.get("skip"), o.get("ignore_header_errors", False))
            elif tool == "pixtopgm":
                from coco import pixtopgm
                d = os.environ.get("XDG_RUNTIME_DIR") or "/dev/shm"
                with tempfile.NamedTemporaryFile(dir=d, suffix=".pix", delete=False) as f:
                    f.write(data)
                    name = f.name
                try:
                    with open(name, "rb") as f:
                        pixtopgm.convert(f, out)
                finally:
                    os.unlink(name)
            elif tool == "veftopng":
                from coco import veftopng
                d = os.environ.get("XDG_RUNTIME_DIR") or "/dev/shm"
                with tempfile.NamedTemporaryFile(dir=d, suffix=".vef", delete=False) as f:
                    f.write(data)
                    name = f.name
                outname = name + ".png"
                try:
                    veftopng.start([name, outname])
                    if os.path.exists(outname):
                        import png
                        try:
                            w, h, rows, info = png.Reader(filename=outname).read()
                            flat = bytearray()
                            for r in rows:
                                flat += bytes(r)
                            res["png"] = dict(width=w, height=h, planes=info.get("planes"), samples=len(flat),
                                              palette=[list(c[:3]) for c in (info.get("palette") or [])][:64], pixels_b64=base64.b64encode(bytes(flat)).decode())
                        except Exception as e:  # noqa
                            res["png"] = dict(error="%s: %s" % (type(e).__name__, str(e)[:120]))
                finally:
                    for fn in (name, outname):
                        if os.path.exists(fn):
                            os.unlink(fn)
            elif tool == "unsquash":
                from coco import veftopng
                r = veftopng.unsquash(bytearray(data), o["count"], o["orig_len"])
                res["result_b64"] = base64.b64encode(bytes(r)).decode()
            else:
                raise ValueError("unknown tool " + tool)
        except SystemExit as e:
            res["outcome"] = "exit"
            res["exit_code"] = e.code if isinstance(e.code, int) else (0 if e.code is None else 1)
        except BaseException as e:  # noqa
            res["outcome"] = "raise"
            res["exception"] = type(e).__name__
            res["message"] = str(e)[:200]
    finally:
        sys.stderr, sys.stdout = saved_err, saved_out
    res["out_b64"] = base64.b64encode(out.getvalue()).decode()
    return res


def main():
    job = json.load(sys.stdin)
    sys.path.insert(0, job["repo"])
    json.dump([one(r) for r in job["requests"]], sys.stdout)


if __name__ == "__main__":
    main()
