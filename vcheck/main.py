"""Entry point of every registered check.
exit 0: every obligation discharged (known findings printed); 1: VIOLATION; 2: undecided; 3: checker cannot decide."""
import argparse
import os
import sys

ROOT = os.path.dirname(os.path.dirname(os.path.abspath(__file__)))
sys.path.insert(0, ROOT)
from vcheck.report import Report  # noqa: E402

DECODER_PROPS = ("C16", "C17", "C18", "C19")
TX_PROPS = ("C01", "C02", "C03", "C04", "C05", "C06", "C07", "C08", "C09", "C10", "C11", "C12", "C13", "C14", "C15", "C20")


def main():
    ap = argparse.ArgumentParser()
    ap.add_argument("prop")
    ap.add_argument("--tier", default=os.environ.get("VERIF_TIER", "quick"), choices=["quick", "thorough"])
    ap.add_argument("--replay")
    ap.add_argument("--write-baseline", action="store_true")
    a = ap.parse_args()
    seed = int(os.environ.get("VERIF_SEED", "0"))
    rep = Report(a.prop, a.tier, seed, "./check %s --tier %s" % (a.prop, a.tier))
    if a.prop in DECODER_PROPS:
        from vcheck import decoder_props as mod
    elif a.prop in TX_PROPS:
        from vcheck import tx_props as mod
    else:
        print("property %s is not claimed (see MANIFEST.json not_applicable)" % a.prop)
        return 3
    if a.replay:
        return mod.replay(a.prop, a.replay, rep)
    mod.run(a.prop, a.tier, rep)
    status = rep.finish()
    if a.write_baseline and status == 0:
        import json
        p = os.path.join(ROOT, "baseline_obligations.json")
        d = json.load(open(p)) if os.path.exists(p) else {}
        d[a.prop] = sorted({o["id"] for o in rep.obligations})
        json.dump(d, open(p, "w"), indent=0)
    return status


if __name__ == "__main__":
    sys.exit(main())
