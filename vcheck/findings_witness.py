"""Concrete witnesses of the recorded known findings, replayed on the real code (thorough tier and on demand:
`python3-vt -m vcheck.findings_witness`).  A finding whose witness no longer fails is reported as 'not reproduced'."""
import base64
import os
import sys

ROOT = os.path.dirname(os.path.dirname(os.path.abspath(__file__)))
sys.path.insert(0, ROOT)


def rat_header(esc=0xFF):
    return bytes([esc, 1, 0]) + bytes(range(16))


def mge_header(rle=True):
    return bytes([0]) + bytes(range(16)) + bytes([0, 0 if rle else 1]) + b"T" + bytes(29) + bytes([0, 0])


def witnesses():
    w = {}
    w["KF-C17-RAT-low-nibble-mask"] = ("C17", "rattoppm", rat_header() + bytes([0xFF, 255, 0x08]) * 124 + bytes([0xFF, 220, 0x08]), {})
    w["KF-C19-RAT-run-overshoot"] = ("C19", "rattoppm", rat_header() + bytes([0xFF, 255, 0x11]) * 125, {})
    w["KF-C19-MGE-early-terminator"] = ("C19", "mgetoppm", mge_header() + bytes([3, 0x55, 0]), {})
    w["KF-C19-MGE-tokens-after-full"] = ("C19", "mgetoppm", mge_header() + bytes([255, 0x11]) * 125 + bytes([125, 0x22, 2, 0x11, 2, 0x22, 0]), {})
    w["KF-C18-HRS-odd-width"] = ("C18", "hrstoppm", bytes(range(16)) + bytes(10), dict(width=3, height=2, skip=None))
    w["KF-C18-MAX-width-not-multiple-of-8"] = ("C18", "maxtoppm", bytes([0, 0, 25, 0, 0]) + bytes(24), dict(arte=0, newsroom=False, cols=100, rows=2, skip=None, ignore_header_errors=False))
    w["KF-C19-MAX-short-rows"] = ("C19", "maxtoppm", bytes([0, 0, 64, 0, 0]) + bytes(10), dict(arte=0, newsroom=False, cols=256, rows=None, skip=None, ignore_header_errors=False))
    w["KF-C19-PIX-non-square-size"] = ("C19", "pixtopgm", bytes(3), {})
    w["KF-C19-CM3-line-count"] = ("C19", "cm3toppm", bytes([1]) + bytes(range(16)) + bytes(12) + bytes([1, 0x80]) + bytes(160), {})
    w["KF-C19-VEF-image-data-of-the-wrong-length"] = ("C19", "veftopng", bytes([0, 0]) + bytes(range(16)) + bytes(10), {})
    return w


def check_all(verbose=True):
    from vcheck import decoder_props as dp
    from specs import reference as ref
    out = {}
    for fid, (prop, tool, data, opts) in witnesses().items():
        real = dp.native(tool, base64.b64encode(data).decode(), opts)
        o = base64.b64decode(real.get("out_b64", ""))
        ok_return = real["outcome"] == "return" and real.get("result") is not False
        fails = False
        why = ""
        if tool == "veftopng":
            png = real.get("png") or {}
            fails = (real["outcome"] == "return" and ("error" in png or png.get("samples") != png.get("width", 0) * png.get("height", 0))) or \
                    (real["outcome"] == "raise" and real.get("exception") not in ("IndexError", "TypeError", "ValueError"))
            why = "png=%s outcome=%s %s" % (png, real["outcome"], real.get("exception", ""))
        elif prop in ("C18", "C19"):
            ph = ref.parse_netpbm(o)
            if ok_return and ph:
                ch = 3 if ph[0] == "P6" else 1
                fails = len(ph[3]) != ch * ph[1] * ph[2]
                why = "%d samples under a %dx%d header" % (len(ph[3]), ph[1], ph[2])
        else:
            r = ref.ref_rat(data)
            fails = ok_return and r is not None and o != ref.netpbm(*r)
            why = "output differs from the rendering of the decoded image"
        out[fid] = (fails, why, real["outcome"])
        if verbose:
            print("%-45s %s (%s; %s)" % (fid, "REPRODUCED" if fails else "not reproduced", why, real["outcome"]))
    return out


FIXED = {"KF-C19-RAT-run-overshoot", "KF-C19-MGE-early-terminator", "KF-C19-MGE-tokens-after-full", "KF-C19-MAX-short-rows",
         "KF-C19-PIX-non-square-size", "KF-C19-CM3-line-count", "KF-C19-VEF-image-data-of-the-wrong-length"}


def verdict(results):
    """open findings must still reproduce on the real code; witnesses of repaired defects must no longer fail silently"""
    bad = []
    for fid, (fails, why, outcome) in results.items():
        if fid in FIXED and fails:
            bad.append("%s: repaired defect is back (%s)" % (fid, why))
        if fid not in FIXED and not fails:
            bad.append("%s: recorded finding does not reproduce any more (%s)" % (fid, why))
    return bad


if __name__ == "__main__":
    r = check_all()
    b = verdict(r)
    print("\n".join(b) or "open findings reproduce; repaired ones stay repaired")
    sys.exit(1 if b else 0)
