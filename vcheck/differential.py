"""Thorough tier only: a BOUNDED differential stand-in next to the proofs of C16-C19.

Generated files (seeded by VERIF_SEED: structured extremes + random content, valid encodings produced by small encoders
written from the format definitions, and damaged variants of them) are run through the real decoders of the tree under
test and compared with the executable specification (specs/reference.py).  It never counts as proved; it is listed under
`bounded_standins`.  Its second purpose is to cross-check the VC generator and the sidecar contracts against CPython: a
disagreement here while the proofs pass would expose an unsound engine or a wrong contract."""
import base64
import json
import os
import random
import subprocess

ROOT = os.path.dirname(os.path.dirname(os.path.abspath(__file__)))


# ------------------------------------------------------------------ encoders (format definitions, independent of /repo)
def enc_rat(img, esc):
    out = bytearray()
    i = 0
    while i < len(img):
        j = i
        while j < len(img) and img[j] == img[i] and j - i < 255:
            j += 1
        run = j - i
        if run >= 4 or img[i] == esc:
            out += bytes([esc, run, img[i]])
        else:
            out += bytes([img[i]]) * run
        i = j
    return bytes(out)


def enc_mge(img, rnd):
    out = bytearray()
    i = 0
    while i < len(img):
        j = i
        lim = rnd.choice((255, 255, 1, 2, 128))
        while j < len(img) and img[j] == img[i] and j - i < lim:
            j += 1
        out += bytes([j - i, img[i]])
        i = j
    return bytes(out) + b"\x00"


def enc_cm3_line(cur, prev, rnd, mode):
    """one CM3 line: raw (control >= 128) or compressed: 20 bytes of 'new value' bits, then `contr` bytes of
    'literal follows' bits for the new positions, then the literal bytes (new and not literal = byte above)."""
    if mode == "raw":
        return bytes([rnd.choice((128, 255, 0x80 | rnd.randrange(128)))]) + bytes(cur)
    sel1 = [0] * 160
    lits = []
    bits2 = []
    work = list(prev)
    for x in range(160):
        left = work[(x - 1) % 160]
        if cur[x] == left and mode != "nolift":
            sel1[x] = 0
            work[x] = left
        else:
            sel1[x] = 1
            if cur[x] == prev[x]:
                bits2.append(0)
            else:
                bits2.append(1)
                lits.append(cur[x])
            work[x] = cur[x]
    def pack(bits, filler=0):
        # the unused trailing bits of the last byte belong to no pixel: an encoder may leave anything there
        bits = bits + [filler if filler in (0, 1) else rnd.randrange(2) for _ in range(-len(bits) % 8)]
        return bytes(sum(b << (7 - k) for k, b in enumerate(bits[i:i + 8])) for i in range(0, len(bits), 8))
    s2 = pack(bits2, rnd.choice((0, 1, 2)))
    if mode in ("spare", "nolift") and len(bits2) % 8 == 0:
        s2 += bytes([rnd.randrange(256)])       # the historical encoder's count is ones // 8 + 1: one unused byte when the bits fill whole bytes
    if len(s2) > 127:
        return None
    return bytes([len(s2)]) + pack(sel1) + s2 + bytes(lits)


def enc_squash(data, rnd):
    out = bytearray()
    i = 0
    while i < len(data):
        j = i
        while j < len(data) and data[j] == data[i] and j - i < 127:
            j += 1
        if j - i >= 3:
            out += bytes([128 + (j - i), data[i]])
            i = j
        else:
            k = i
            while k < len(data) and k - i < rnd.choice((1, 5, 128)) and not (k + 2 < len(data) and data[k] == data[k + 1] == data[k + 2]):
                k += 1
            k = max(k, i + 1)
            out += bytes([k - i]) + bytes(data[i:k])
            i = k
    return bytes(out)


# ------------------------------------------------------------------ content
def content(rnd, n, kind):
    if kind == "zero":
        return bytes(n)
    if kind == "ff":
        return bytes([255]) * n
    if kind == "ramp":
        return bytes((i * 7 + (i >> 8)) & 255 for i in range(n))
    if kind == "runs":
        out = bytearray()
        while len(out) < n:
            out += bytes([rnd.randrange(256)]) * rnd.choice((1, 2, 3, 5, 17, 254, 255, 256, 300, 1000))
        return bytes(out[:n])
    if kind == "nib":
        return bytes(((i % 16) << 4 | ((i // 16) % 16)) for i in range(n))
    return bytes(rnd.randrange(256) for _ in range(n))


KINDS = ("zero", "ff", "ramp", "runs", "nib", "rand")


def palettes(rnd):
    yield list(range(16))
    yield list(range(48, 64))
    yield [63 - i for i in range(16)]
    for _ in range(3):
        yield [rnd.randrange(64) for _ in range(16)]


def gen(seed, scale):
    rnd = random.Random(seed)
    cases = []     # (tool, data, opts, label, family)  family: 'raw' (C16) | 'packed' (C17) | 'options' (C18) | 'damaged' (C19)
    # HRS
    for pal in palettes(rnd):
        for kind in KINDS[:3 + scale]:
            cases.append(("hrstoppm", bytes(pal) + content(rnd, 160 * 192, kind), {}, "hrs/%s" % kind, "raw"))
    # palette bytes above 63: only bits 0..5 denote the colour, the rest is don't-care
    for hi in (0x40, 0x80, 0xC0):
        cases.append(("hrstoppm", bytes((p | hi) for p in range(16)) + content(rnd, 160 * 192, "nib"), {}, "hrs/palette bytes | 0x%02X" % hi, "raw"))
    for w, h, skip in ((320, 192, 5), (2, 1, None), (640, 10, 0), (4, 3, 1), (320, 200, None)):
        data = bytes(skip or 0) + bytes(range(16)) + content(rnd, (w // 2) * h, "rand")
        cases.append(("hrstoppm", data, dict(width=w, height=h, skip=skip), "hrs/%dx%d,skip=%s" % (w, h, skip), "options"))
    # MGE raw and run-length, both palette kinds
    for pal in palettes(rnd):
        for is_comp in (0, 1):
            head = bytes([0]) + bytes(pal) + bytes([is_comp])
            title = b"TITLE" + bytes(25) + bytes([0, 0])
            img = content(rnd, 32000, rnd.choice(KINDS))
            cases.append(("mgetoppm", head + bytes([1]) + title[:32] + img, {}, "mge/raw,comp=%d" % is_comp, "raw"))
            cases.append(("mgetoppm", head + bytes([0]) + title[:32] + enc_mge(content(rnd, 32000, "runs"), rnd), {}, "mge/rle,comp=%d" % is_comp, "packed"))
    # RAT
    for pal in palettes(rnd):
        for esc in (0xFF, 0x00, 0x11, rnd.randrange(256)):
            img = content(rnd, 199 * 160, rnd.choice(("runs", "rand", "zero", "nib")))
            img = bytes(b & 0xF7 for b in img)          # low nibble < 8: outside the recorded finding KF-C17-RAT-low-nibble-mask
            cases.append(("rattoppm", bytes([esc, 1, 0]) + bytes(pal) + enc_rat(img, esc), {}, "rat/esc=%d" % esc, "packed"))
    # CM3: raw lines and compressed lines, one and two pages, with / without pattern block
    for pal in list(palettes(rnd))[:2 + scale]:
        for pages in (1, 2):
            for motif in (0, 1):
                for mode in ("raw", "packed", "mixed"):
                    flags = (0x80 if pages == 2 else 0) | (1 if not motif else 0)
                    data = bytearray([flags]) + bytes(pal) + bytes(12)
                    if motif:
                        data += bytes(rnd.randrange(256) for _ in range(243))
                    prev = [0] * 160
                    ok = True
                    for _pg in range(pages):
                        data.append(192)
                        for ln in range(192):
                            if mode != "raw" and rnd.random() < 0.5:
                                cur = list(prev)
                                for _ in range(rnd.choice((0, 1, 3, 20))):
                                    cur[rnd.randrange(160)] = rnd.randrange(256)
                            else:
                                cur = list(content(rnd, 160, rnd.choice(("runs", "rand", "zero"))))
                            m = "raw" if mode == "raw" or (mode == "mixed" and rnd.random() < 0.3) else "packed"
                            enc = enc_cm3_line(cur, prev, rnd, m)
                            if enc is None:
                                enc = enc_cm3_line(cur, prev, rnd, "raw")
                            data += enc
                            prev = cur
                    cases.append(("cm3toppm", bytes(data), {}, "cm3/%s,pages=%d,pattern=%d" % (mode, pages, motif), "raw" if mode == "raw" else "packed"))
    # CM3 lines coded entirely through the second mask (every byte new: 160 bits, 20 bytes + the encoder's spare byte = control 21)
    for motif in (0, 1):
        pal = [rnd.randrange(64) for _ in range(16)]
        data = bytearray([0 if motif else 1]) + bytes(pal) + bytes(12) + (bytes(rnd.randrange(256) for _ in range(243)) if motif else b"") + bytes([192])
        prev = [0] * 160
        for ln in range(192):
            cur = [(prev[x] + 1 + rnd.randrange(254)) % 256 for x in range(160)] if ln % 3 else list(content(rnd, 160, "runs"))
            enc = enc_cm3_line(cur, prev, rnd, "nolift" if ln % 3 else "spare")
            data += enc if enc is not None else enc_cm3_line(cur, prev, rnd, "raw")
            prev = cur
        cases.append(("cm3toppm", bytes(data), {}, "cm3/all-new lines (control 21),pattern=%d" % motif, "packed"))
    # MAX: table-driven pixel modes, header-derived and explicit sizes, newsroom, skip
    for arte in (0, 3, 4, 5, 6, 7, 8):
        for kind in ("rand", "nib"):
            body = content(rnd, 32 * 192, kind)
            cases.append(("maxtoppm", bytes([0, 0x18, 0x00, 0, 0]) + body, dict(arte=arte), "max/arte=%d" % arte, "raw"))
    for cols, rows, size in ((256, None, 3200), (256, 100, 3200), (64, 7, 56), (512, None, 64 * 30), (8, 1, 1)):
        data = bytes([0, size >> 8, size & 255, 0, 0]) + content(rnd, (cols // 8) * (rows or 8 * size // cols), "rand")
        cases.append(("maxtoppm", data, dict(arte=0, cols=cols, rows=rows), "max/cols=%d,rows=%s,size=%d" % (cols, rows, size), "options"))
    cases.append(("maxtoppm", bytes(7) + bytes([0, 0x18, 0, 0, 0]) + content(rnd, 32 * 192, "rand"), dict(arte=3, skip=7), "max/skip=7", "options"))
    cases.append(("maxtoppm", bytes([10, 20]) + content(rnd, 10 * 20, "rand"), dict(arte=0, newsroom=True), "max/newsroom", "options"))
    # PIX
    for side in (2, 4, 6, 10, 100, 128, 200, 256):
        cases.append(("pixtopgm", content(rnd, side * side // 2, "rand"), {}, "pix/side=%d" % side, "raw"))
    cases.append(("pixtopgm", bytes(range(256)) * 2, {}, "pix/every byte value", "raw"))
    cases.append(("pixtopgm", bytes(512), {}, "pix/all zero", "raw"))
    cases.append(("pixtopgm", bytes([255]) * 512, {}, "pix/all ones", "raw"))
    # VEF: three uncompressed types, and the same pictures squashed (400 records)
    for typ, nbytes, rec in ((0, 32000, 80), (1, 32000, 80), (3, 16000, 40)):
        for kind in ("rand", "runs", "nib") if scale > 1 else ("rand",):
            pal = [rnd.randrange(64) for _ in range(16)]
            body = content(rnd, nbytes, kind)
            cases.append(("veftopng", bytes([0, typ]) + bytes(pal) + body, {}, "vef/type=%d,raw,%s" % (typ, kind), "raw"))
            if kind == "rand":
                cases.append(("veftopng", bytes([0, typ]) + bytes(pal) + body[:-40] + bytes(40), {}, "vef/type=%d,raw,zero tail" % typ, "raw"))
                cases.append(("veftopng", bytes([0, typ]) + bytes(pal) + bytes(40) + body[40:], {}, "vef/type=%d,raw,zero head" % typ, "raw"))
            sq = bytearray([128, typ]) + bytes(pal)
            ok = True
            for k in range(400):
                r = enc_squash(body[k * rec:(k + 1) * rec], rnd)
                if len(r) > 255:
                    ok = False
                    break
                sq += bytes([len(r)]) + r
            if ok:
                cases.append(("veftopng", bytes(sq), {}, "vef/type=%d,squashed,%s" % (typ, kind), "packed"))
    # unsquash
    for _ in range(6 + 6 * scale):
        n = rnd.choice((1, 2, 127, 128, 129, 1000, 16000))
        raw = content(rnd, n, rnd.choice(("runs", "rand", "zero")))
        sq = enc_squash(raw, rnd)
        cases.append(("unsquash", sq, dict(count=len(sq), orig_len=n), "unsquash/n=%d" % n, "packed"))
    # damaged variants (C19): truncations, bit flips in header and body, appended garbage, empty
    damaged = []
    base = [c for c in cases if c[0] != "unsquash"]
    for tool, data, opts, label, fam in rnd.sample(base, min(len(base), 20 + 20 * scale)):
        cuts = sorted({0, 1, 2, 5, 16, 19, 29, 51, len(data) // 2, len(data) - 1, max(0, len(data) - 160), rnd.randrange(len(data) + 1)})
        for cut in rnd.sample(cuts, 4):
            if cut < len(data):
                damaged.append((tool, data[:cut], opts, label + ",cut=%d" % cut, "damaged"))
        b = bytearray(data)
        for _ in range(3):
            b[rnd.randrange(min(len(b), 64))] ^= 1 << rnd.randrange(8)
        damaged.append((tool, bytes(b), opts, label + ",header-flips", "damaged"))
        b = bytearray(data)
        for _ in range(5):
            b[rnd.randrange(len(b))] = rnd.randrange(256)
        damaged.append((tool, bytes(b), opts, label + ",body-noise", "damaged"))
        damaged.append((tool, data + bytes(rnd.randrange(256) for _ in range(9)), opts, label + ",appended", "damaged"))
    # every short prefix of one valid file per decoder (C19: "every prefix of a valid file"): the cuts inside the header fields
    seen_tools = set()
    for tool, data, opts, label, fam in base:
        if tool in seen_tools or any(k in opts for k in ("rows", "newsroom", "skip")):
            continue
        seen_tools.add(tool)
        for cut in range(0, 9):
            damaged.append((tool, data[:cut], opts, label + ",prefix of %d bytes" % cut, "damaged-t"))
    # a file cut inside its last token: RAT ending in an escape run that completes the picture, MGE ending in a (count, value) pair
    for pal in list(palettes(rnd))[:1]:
        img = bytes(content(rnd, 199 * 160 - 40, "rand")) + bytes([0x21]) * 40
        img = bytes(b & 0xF7 for b in img)
        for esc in (0xFF, 0x21):
            full = bytes([esc, 1, 0]) + bytes(pal) + enc_rat(img, esc)
            for cutoff in (1, 2, 3):
                damaged.append(("rattoppm", full[:-cutoff], {}, "rat/esc=%d,ends in an escape run,cut by %d" % (esc, cutoff), "damaged-t"))
        head = bytes([0]) + bytes(pal) + bytes([0]) + bytes([0]) + (b"TITLE" + bytes(25) + bytes([0, 0]))[:32]
        body = enc_mge(bytes(content(rnd, 32000 - 300, "runs")) + bytes([7]) * 300, rnd)
        for cutoff in (1, 2, 3):
            damaged.append(("mgetoppm", head + body[:-cutoff], {}, "mge/rle,cut by %d inside the last pair" % cutoff, "damaged-t"))
    for tool, data, opts, label, fam in base:
        if tool in ("hrstoppm", "maxtoppm", "cm3toppm", "pixtopgm") and fam in ("raw", "packed") and not any(k in opts for k in ("rows", "newsroom", "skip")) and (tool, "tail") not in seen_tools:
            seen_tools.add((tool, "tail"))
            for cutoff in (1, 2, 7):
                damaged.append((tool, data[:-cutoff], opts, label + ",cut by %d at the end" % cutoff, "damaged-t"))
    # header bytes with a fixed value in the format: every other value is a damaged file
    for tool, data, opts, label, fam in base:
        if tool == "mgetoppm" and label.startswith("mge/") and "comp=0" in label:
            for v in (1, 2, 3, 0x80, 0xFF):
                damaged.append((tool, bytes([v]) + data[1:], opts, label + ",first byte %d" % v, "damaged-t"))
    # CM3: the control byte of a compressed line announces fewer mask bytes than the line's "new value" bits consume
    for which in ("last", "middle", "first-compressed"):
        pal = [rnd.randrange(64) for _ in range(16)]
        data = bytearray([1]) + bytes(pal) + bytes(12) + bytes([192])
        prev = [0] * 160
        controls = []
        for ln in range(192):
            if ln == 0:
                cur = list(content(rnd, 160, "rand"))
                enc = enc_cm3_line(cur, prev, rnd, "raw")
            else:
                cur = list(prev)
                for _ in range(9 + ln % 5):        # 9..13 new values: two mask bytes
                    cur[rnd.randrange(160)] = rnd.randrange(256)
                enc = enc_cm3_line(cur, prev, rnd, "packed")
                if enc is None or enc[0] == 0:
                    enc = enc_cm3_line(cur, prev, rnd, "raw")
                else:
                    controls.append(len(data))
            data += enc
            prev = cur
        if controls:
            at = {"last": controls[-1], "middle": controls[len(controls) // 2], "first-compressed": controls[0]}[which]
            for lower in (1, data[at]):
                b = bytearray(data)
                b[at] -= lower
                damaged.append(("cm3toppm", bytes(b), {}, "cm3/control byte of the %s compressed line lowered by %d" % (which, lower), "damaged-t"))
    for n in (4, 12, 24, 40, 60, 7812, 8064, 31, 33):      # PIX sizes next to squares: (s*s-1)/2 for odd s, s*s/2 +- 1
        damaged.append(("pixtopgm", bytes(rnd.randrange(256) for _ in range(n)), {}, "pixtopgm/%d bytes (not half a square)" % n, "damaged"))
    for tool in ("hrstoppm", "rattoppm", "mgetoppm", "cm3toppm", "maxtoppm", "pixtopgm"):
        for n in (0, 1, 3, 18, 30, 60):
            damaged.append((tool, bytes(rnd.randrange(256) for _ in range(n)), {}, "%s/random %d bytes" % (tool, n), "damaged"))
    return cases + damaged


def run_native(cases):
    repo = os.environ.get("VERIF_REPO", "/repo")
    env = dict(os.environ)
    env["PYTHONPATH"] = repo
    nproc = int(os.environ.get("VERIF_JOBS", "16"))
    chunks = [cases[i::nproc] for i in range(nproc)]
    procs = []
    for ch in chunks:
        job = dict(repo=repo, requests=[dict(tool=t, input_b64=base64.b64encode(d).decode(), opts=o) for t, d, o, _, _ in ch])
        p = subprocess.Popen(["/venv/bin/python", os.path.join(ROOT, "vcheck", "native_batch.py")], stdin=subprocess.PIPE, stdout=subprocess.PIPE,
                             stderr=subprocess.PIPE, text=True, env=env)
        procs.append((p, json.dumps(job)))
    outs = []
    import threading
    res = [None] * len(procs)

    def work(k):
        p, inp = procs[k]
        res[k] = p.communicate(inp, timeout=3000)
    th = [threading.Thread(target=work, args=(k,)) for k in range(len(procs))]
    for t in th:
        t.start()
    for t in th:
        t.join()
    results = [None] * len(cases)
    for k, (p, _) in enumerate(procs):
        if p.returncode != 0:
            raise RuntimeError("native batch failed: " + (res[k][1] or "")[-400:])
        for j, r in enumerate(json.loads(res[k][0])):
            results[k + j * nproc] = r
    return results


def expected(ref, tool, data, opts):
    if tool == "hrstoppm":
        return ref.ref_hrs(data, opts.get("width", 320), opts.get("height", 192), opts.get("skip"))
    if tool == "rattoppm":
        return ref.ref_rat(data)
    if tool == "mgetoppm":
        return ref.ref_mge(data)
    if tool == "cm3toppm":
        return ref.ref_cm3(data)
    if tool == "pixtopgm":
        return ref.ref_pix(data)
    if tool == "maxtoppm":
        return ref.ref_max(data, opts.get("arte", 0), opts.get("newsroom", False), opts.get("cols", 256), opts.get("rows"), opts.get("skip"))
    return None


FAMILIES = {"C16": ("raw",), "C17": ("packed",), "C18": ("raw", "packed", "options"), "C19": ("raw", "packed", "options", "damaged", "damaged-t")}


def run(prop, rep, seed, scale=1):
    cases = [c for c in gen(seed, scale) if c[4] in FAMILIES[prop]]
    bad, counts = evaluate(prop, cases)
    held = not bad
    rep.bounded.append(dict(check="%s/differential (real decoder vs executable specification)" % prop,
                            bound="%d generated files (seed %d): %s" % (len(cases), seed, ", ".join("%s %d" % kv for kv in sorted(counts.items()))), held=held))
    for b in bad[:5]:
        rep.violation("%s/differential/%s" % (prop, b["label"]), dict(detail="bounded differential stand-in", replay=b,
                                                                    replay_cmd="./check %s --replay <this file>" % prop), True)
    return len(cases), len(bad)


def run_tool(prop, rep, tool, seed, what):
    """bounded stand-in for one decoder whose pixel clause is not under contract (quick and thorough tiers)"""
    cases = [c for c in gen(seed, 1) if c[0] == tool and c[4] in ("raw", "packed")]
    bad, counts = evaluate(prop, cases)
    rep.bounded.append(dict(check="%s/differential/%s (%s)" % (prop, tool, what), bound="%d generated files (seed %d)" % (len(cases), seed), held=not bad))
    for b in bad[:3]:
        rep.violation("%s/differential/%s" % (prop, b["label"]), dict(detail="bounded differential stand-in", replay=b, replay_cmd="./check %s --replay <this file>" % prop), True)
    return len(cases), len(bad)


def run_family(prop, rep, family, seed, what):
    """bounded stand-in over one generated family (quick and thorough tiers)"""
    cases = [c for c in gen(seed, 1) if c[4] == family]
    bad, counts = evaluate(prop, cases)
    rep.bounded.append(dict(check="%s/differential/%s (%s)" % (prop, family, what), bound="%d generated files (seed %d): %s" % (len(cases), seed, counts), held=not bad))
    for b in bad[:3]:
        rep.violation("%s/differential/%s" % (prop, b["label"]), dict(detail="bounded differential stand-in", replay=b, replay_cmd="./check %s --replay <this file>" % prop), True)
    return len(cases), len(bad)


def find_failing(prop, tool, seed=0):
    """used when a proof obligation fails and the solver's own counterexample does not replay: look for a concrete file of
    that decoder on which the real code contradicts the executable specification (a witness for the report, never a verdict)"""
    fams = FAMILIES[prop] if prop == "C19" else ("raw", "packed", "options")
    cases = [c for c in gen(seed, 2) if c[0] == tool and c[4] in fams]
    if not cases:
        return None
    bad, _ = evaluate(prop, cases)
    return bad[0] if bad else None


def evaluate(prop, cases):
    from specs import reference as ref
    from vcheck import decoder_props as dp
    real = run_native(cases)
    bad = []
    counts = {}
    for (tool, data, opts, label, fam), r in zip(cases, real):
        counts[tool] = counts.get(tool, 0) + 1
        out = base64.b64decode(r.get("out_b64", ""))
        ok_return = r["outcome"] == "return" and r.get("result") is not False
        why = None
        if dp.known_case(tool, data, opts, ref):
            continue
        if tool == "veftopng":
            e = ref.ref_vef(data)
            png = r.get("png")
            if not fam.startswith("damaged") and prop in ("C16", "C17", "C18"):
                if e is None:
                    why = "generator produced a VEF the executable specification rejects (generator defect, not a verdict)"
                elif r["outcome"] != "return" or not png:
                    why = "real decoder failed on a well-formed VEF: %s %s" % (r["outcome"], r.get("exception") or r.get("exit_code"))
                elif "error" in png:
                    why = "the PNG cannot be read back: %s" % png["error"]
                elif (png["width"], png["height"]) != (e[0], e[1]):
                    why = "PNG is %dx%d, the type byte dictates %dx%d" % (png["width"], png["height"], e[0], e[1])
                elif png.get("planes") != 1 or len(png.get("palette") or []) < 64:
                    why = "PNG is not a palette image with 64 entries (planes=%s, palette entries=%d)" % (png.get("planes"), len(png.get("palette") or []))
                elif prop != "C18":
                    got = list(base64.b64decode(png["pixels_b64"]))
                    if any(list(ref.px6(k)) != png["palette"][k] for k in range(64)):
                        why = "palette entry differs from the six-bit colour code"
                    elif got != e[2]:
                        k = next(i for i in range(min(len(got), len(e[2]))) if got[i] != e[2][i]) if len(got) == len(e[2]) else -1
                        why = "pixel %d is palette index %s, expected %s" % (k, got[k] if k >= 0 else "?", e[2][k] if k >= 0 else "?")
            else:
                if r["outcome"] == "return" and png and "error" not in png and png["samples"] != png["width"] * png["height"] * (png.get("planes") or 1):
                    why = "success reported with %d samples in a %dx%d PNG" % (png["samples"], png["width"], png["height"])
            if why:
                bad.append(dict(tool=tool, label=label, family=fam, opts=opts, input_b64=base64.b64encode(data).decode(), input_len=len(data),
                                real={k: v for k, v in r.items() if k not in ("out_b64", "png")}, png={k: v for k, v in (png or {}).items() if k != "pixels_b64"}, mismatch=why))
            continue
        if tool == "unsquash":
            exp = ref.ref_unsquash(data, opts["count"], opts["orig_len"])
            got = base64.b64decode(r.get("result_b64", "")) if r["outcome"] == "return" else None
            if prop in ("C17",) and exp is not None and got != exp:
                why = "unsquash result differs from the record's definition (%s)" % (r.get("exception") or "%d vs %d bytes" % (len(got or b""), len(exp)))
        else:
            e = expected(ref, tool, data, opts)
            if prop in ("C16", "C17") and not fam.startswith("damaged"):
                if e is None:
                    why = "generator produced a file the executable specification rejects (generator defect, not a verdict)"
                elif not ok_return:
                    why = "real decoder failed on a well-formed file: %s %s" % (r["outcome"], r.get("exception") or r.get("exit_code"))
                elif out != ref.netpbm(*e):
                    exp = ref.netpbm(*e)
                    k = next((i for i in range(min(len(out), len(exp))) if out[i] != exp[i]), min(len(out), len(exp)))
                    why = "output differs from the specified image at byte %d (%d vs %d bytes)" % (k, len(out), len(exp))
            else:
                if ok_return:
                    ph = ref.parse_netpbm(out)
                    if ph is None:
                        why = "success reported but the output has no Netpbm header"
                    else:
                        magic, w, h, body = ph
                        ch = 3 if magic == "P6" else 1
                        if len(body) != ch * w * h:
                            why = "success reported with %d samples under a header announcing %dx%d" % (len(body), w, h)
                        elif e is not None and (w, h) != (e[0], e[1]):
                            why = "header announces %dx%d, the format/options dictate %dx%d" % (w, h, e[0], e[1])
                        elif e is None and fam.startswith("damaged") and prop == "C19":
                            why = "success reported (a %dx%d picture) on a file the format definition rejects as incomplete or inconsistent" % (w, h)
                elif prop == "C18" and e is not None and not fam.startswith("damaged"):
                    why = "real decoder failed on a well-formed file: %s %s" % (r["outcome"], r.get("exception") or r.get("exit_code"))
        if why:
            bad.append(dict(tool=tool, label=label, family=fam, opts=opts, input_b64=base64.b64encode(data).decode() if len(data) < 200000 else None, input_len=len(data),
                            real={k: v for k, v in r.items() if k != "out_b64"}, mismatch=why))
    return bad, counts
