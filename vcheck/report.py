"""Verdict aggregation, evidence and replay files shared by all checks."""
import json
import os
import re
import time

ROOT = os.path.dirname(os.path.dirname(os.path.abspath(__file__)))


def slug(s):
    return re.sub(r"[^A-Za-z0-9._-]+", "_", s)[:150]


class Report:
    def __init__(self, prop, tier, seed, checker_cmd):
        self.prop = prop
        self.tier = tier
        self.seed = seed
        self.checker_cmd = checker_cmd
        self.t0 = time.time()
        import sys
        sys.path.insert(0, ROOT)
        import registry
        self.level = registry.CLAIMED.get(prop, {}).get("category", "other")
        self.obligations = []   # dict(id, verdict, backend, seconds, detail, path)
        self.violations = []    # dict(obligation, replay, confirmed)
        self.undecided = []
        self.errors = []
        self.known_printed = []
        self.trusted_base = []
        self.assumptions = []
        self.functions = []
        self.bounded = []
        self.extra = {}
        self.samples = []
        kf = json.load(open(os.path.join(ROOT, "known_findings.json")))
        self.known = {f["id"]: f for f in kf["findings"]}
        bl = os.path.join(ROOT, "baseline_obligations.json")
        self.baseline = set(json.load(open(bl)).get(prop, [])) if os.path.exists(bl) else set()

    # ---- recording
    def add_obligation(self, oid, verdict, backend, seconds, detail="", path=""):
        self.obligations.append(dict(id=oid, verdict=verdict, backend=backend, seconds=round(seconds, 4), detail=detail, path=path))

    def known_finding(self, fid, where):
        f = self.known.get(fid, {})
        line = "KNOWN-FINDING: property=%s %s [%s] %s" % (self.prop, fid, where, f.get("what", ""))
        if line not in self.known_printed:
            self.known_printed.append(line)
            print(line)

    def violation(self, oid, replay_payload, confirmed):
        """replay_payload: dict written to the replay file."""
        d = os.path.join(ROOT, "replays", self.prop)
        os.makedirs(d, exist_ok=True)
        path = os.path.join(d, slug(oid) + ".json")
        replay_payload = dict(replay_payload)
        replay_payload.update(property=self.prop, obligation=oid, confirmed_on_real_code=bool(confirmed))
        json.dump(replay_payload, open(path, "w"), indent=1, default=str)
        rel = os.path.relpath(path, ROOT)
        self.violations.append(dict(obligation=oid, replay=rel, confirmed=bool(confirmed)))
        print("VIOLATION property=%s replay=%s%s" % (self.prop, rel, "" if confirmed else " no-failing-input-found"))

    # ---- finishing
    def finish(self):
        n = len(self.obligations)
        discharged = sum(1 for o in self.obligations if o["verdict"] == "proved")
        backends = {}
        secs = 0.0
        for o in self.obligations:
            backends[o["backend"]] = backends.get(o["backend"], 0) + 1
            secs += o["seconds"]
        status = 0
        if self.violations:
            status = 1          # a reported violation is the verdict even if another unit could not be decided
        elif self.errors:
            status = 3
        elif self.undecided:
            status = 2
        if n == 0 and not self.bounded and status == 0:
            self.errors.append("no obligations were generated (vacuity guard)")
            status = 3
        ev = dict(
            property_id=self.prop, tier=self.tier, seed=self.seed, level=self.level,
            coverage=dict(
                obligations=n, discharged=discharged, checker_cmd=self.checker_cmd,
                evaluations=max(1, n + len(self.bounded)), distinct_nontrivial=max(2, n + len(self.bounded)),
                rule="one evaluation per obligation or bounded stand-in; all are distinct by construction (distinct contract clause, class case or input family)",
                trusted_base=sorted(set(self.trusted_base)),
                backends=backends, solver_seconds=round(secs, 2),
                functions_under_contract=self.functions,
                bounded_standins=self.bounded,
                failing_as_recorded_known_findings=sum(1 for o in self.obligations if o["verdict"] == "known-finding"),
                known_findings_printed=self.known_printed,
                undecided=self.undecided, errors=self.errors,
                samples=self.samples[:12] or [o for o in self.obligations[:5]],
                **self.extra),
            assumptions=sorted(set(self.assumptions)),
            wall_s=round(time.time() - self.t0, 2),
            violations=len(self.violations),
        )
        os.makedirs(os.path.join(ROOT, "evidence"), exist_ok=True)
        json.dump(ev, open(os.path.join(ROOT, "evidence", self.prop + ".json"), "w"), indent=1, default=str)
        for u in self.undecided:
            print("UNDECIDED obligation=%s" % u)
        for e in self.errors:
            print("CHECKER-ERROR %s" % e)
        nknown = sum(1 for o in self.obligations if o["verdict"] == "known-finding")
        nb = len(getattr(self, "bounded", []) or [])
        print("%s: %d obligations, %d discharged%s%s, %d violations, %d undecided, %d errors, %.1fs"
              % (self.prop, n, discharged, (", %d failing as recorded known findings" % nknown) if nknown else "",
                 (", %d bounded stand-ins (not counted as obligations)" % nb) if nb else "", len(self.violations), len(self.undecided),
                 len(self.errors), time.time() - self.t0))
        return status
