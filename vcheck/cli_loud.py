"""BOUNDED stand-in (never counted as proved): the command-line wrappers start()/main() of the decoders sit outside the
contracts (argparse, file objects).  C19 needs the failure convert() signals to *reach the user*: for damaged files the
process must end with a non-zero status, leave no output file behind, or have written a complete image - through files and through stdin/stdout.
Each case runs `python -c "from coco import <tool>; <tool>.main()"` of the tree under test in a child process."""
import os
import subprocess
import tempfile

ROOT = os.path.dirname(os.path.dirname(os.path.abspath(__file__)))


def damaged_inputs():
    from vcheck import findings_witness as fw
    rat = fw.rat_header()
    mge = fw.mge_header()
    cases = {
        "maxtoppm": [("bad first byte", bytes([7, 0x18, 0, 0, 0]) + bytes(6144), []), ("truncated body", bytes([0, 0x18, 0, 0, 0]) + bytes(1000), []),
                     ("inconsistent size", bytes([0, 0x10, 1, 0, 0]) + bytes(6144), []), ("truncated, -i", bytes([0, 0x18, 0, 0, 0]) + bytes(1000), ["-i"]),
                     ("empty", b"", [])],
        "hrstoppm": [("truncated", bytes(range(16)) + bytes(1000), []), ("empty", b"", [])],
        "rattoppm": [("truncated", rat + bytes(500), []), ("run overshoot", rat + bytes([0xFF, 255, 0x11]) * 125, []), ("empty", b"", [])],
        "mgetoppm": [("early terminator", mge + bytes([3, 0x55, 0]), []), ("truncated raw", fw.mge_header(False) + bytes(900), []), ("empty", b"", [])],
        "cm3toppm": [("wrong line count", bytes([1]) + bytes(range(16)) + bytes(12) + bytes([1, 0x80]) + bytes(160), []), ("truncated", bytes([1]) + bytes(range(16)) + bytes(12) + bytes([192, 0x80]) + bytes(100), []),
                     ("empty", b"", [])],
    }
    return cases


def complete(out):
    from specs import reference as ref
    ph = ref.parse_netpbm(out)
    if ph is None:
        return False
    magic, w, h, body = ph
    return len(body) == (3 if magic == "P6" else 1) * w * h


def run(prop, rep):
    repo = os.environ.get("VERIF_REPO", "/repo")
    env = dict(os.environ, PYTHONPATH=repo)
    bad, n = [], 0
    tmpdir = os.environ.get("XDG_RUNTIME_DIR") or "/dev/shm"
    for tool, cases in damaged_inputs().items():
        code = "from coco import %s as m; m.main()" % tool
        for label, data, flags in cases:
            for mode in ("pipe", "file"):
                n += 1
                with tempfile.TemporaryDirectory(dir=tmpdir) as d:
                    if mode == "pipe":
                        p = subprocess.run(["/venv/bin/python", "-c", code] + flags, input=data, capture_output=True, env=env, timeout=120)
                        out = p.stdout
                    else:
                        fin, fout = os.path.join(d, "in.bin"), os.path.join(d, "out.ppm")
                        open(fin, "wb").write(data)
                        p = subprocess.run(["/venv/bin/python", "-c", code] + flags + [fin, fout], capture_output=True, env=env, timeout=120)
                        removed = not os.path.exists(fout)
                        out = open(fout, "rb").read() if not removed else b""
                        if removed:
                            continue        # no output file is left behind: the failure is reported (C19 names this form for MAX)
                if p.returncode == 0 and not complete(out):
                    bad.append(dict(tool=tool, case=label, mode=mode, flags=flags, exit_status=0, bytes_written=len(out),
                                    problem="exit status 0 although no complete image was written"))
    rep.bounded.append(dict(check="%s/cli (a failure of convert() reaches the exit status; files and pipes)" % prop,
                            bound="%d runs: damaged files of 5 decoders through main(), file and stdin/stdout" % n, held=not bad))
    for b in bad[:4]:
        rep.violation("%s/cli/%s/%s/%s" % (prop, b["tool"], b["case"], b["mode"]), dict(detail="bounded CLI stand-in", replay=b), True)
    return n, len(bad)
