"""Checks for the decoder properties C16-C19: run the pyvc units of a property in parallel, replay
counterexamples on the real code, aggregate."""
import base64
import json
import re
import multiprocessing as mp
import os
import subprocess
import sys
import time

ROOT = os.path.dirname(os.path.dirname(os.path.abspath(__file__)))
sys.path.insert(0, ROOT)

TRUSTED = [
    "z3 5.1 (python API) and cvc5 1.0.3 as decision procedures",
    "pyvc's encoding of the Python subset (DESIGN.md 6.1): int is mathematical, // and % floor, >> and & by constants as div/mod, "
    "list/str/bytes as (array, length), IndexError/TypeError/ValueError sites as explicit forks",
    "stream contract: read(k) returns min(k, remaining) bytes and advances; write appends all bytes (files and pipes alike)",
    "codecs latin-1 is the identity on 0..255; str.format('{}') of an int is its decimal numeral",
    "products of two symbolic integers are abstracted to an uninterpreted function in the main obligations; every arithmetic "
    "fact about them is a separately proved lemma (nonlinear z3 query)",
]

_CTX = None


def _ctx():
    global _CTX
    if _CTX is None:
        from pyvc.verify import Context
        from specs import decoders
        repo = os.environ.get("VERIF_REPO", "/repo")
        _CTX = Context(repo, decoders.CONTRACTS, open(os.path.join(ROOT, "specs", "specfuns.py")).read())
    return _CTX


def units_for(prop):
    from specs import decoders
    own = [u for u in decoders.CONTRACTS if u["tag"] == prop or prop in u.get("also", [])]
    mods = {u["module"] for u in own} | {"coco.util"}
    shared = [u for u in decoders.CONTRACTS if u["tag"] == "*" and u["module"] in mods]
    only = os.environ.get("VERIF_ONLY_UNITS")      # development aid: substring filter on unit names
    if only:
        own = [u for u in own if only in u["name"]]
    # longest units first: their path trees are the deepest, start them before the small ones fill the pool
    own.sort(key=lambda u: -{"coco.maxtoppm.convert": 3, "coco.cm3toppm.convert": 2, "coco.mgetoppm.convert": 1}.get(u["name"], 0))
    return own + shared


def extract_input(model, unit):
    import z3
    if model is None:
        return None
    try:
        L = model.eval(z3.Int("L"), model_completion=True).as_long()
    except Exception:
        return None
    if L > 3000000 or L < 0:
        return dict(too_large=L)
    inp = z3.Array("inp", z3.IntSort(), z3.IntSort())
    e = model.eval(inp, model_completion=True)
    points, default = {}, None
    ok = True
    cur = e
    while True:
        if z3.is_store(cur):
            try:
                points.setdefault(cur.arg(1).as_long(), cur.arg(2).as_long())
            except Exception:
                ok = False
                break
            cur = cur.arg(0)
        elif z3.is_K(cur):
            default = cur.arg(0).as_long()
            break
        else:
            ok = False
            break
    data = bytearray(L)
    if ok:
        for i in range(L):
            data[i] = max(0, min(255, points.get(i, default)))
    else:
        for i in range(L):
            try:
                data[i] = max(0, min(255, model.eval(inp[i], model_completion=True).as_long()))
            except Exception:
                data[i] = 0
    opts = {}
    for name, kind in unit.get("params", {}).items():
        if kind == "int" or (isinstance(kind, tuple) and kind[0] in ("lazyenum",)):
            opts[name] = model.eval(z3.Int(name), model_completion=True).as_long()
        elif kind == "bool":
            opts[name] = bool(z3.is_true(model.eval(z3.Bool(name), model_completion=True)))
        elif kind == "bytes_list":
            ln = model.eval(z3.Int(name + "_len"), model_completion=True).as_long()
            if 0 <= ln <= 100000:
                arr = z3.Array(name, z3.IntSort(), z3.IntSort())
                opts[name + "_b64"] = base64.b64encode(bytes(max(0, min(255, model.eval(arr[i], model_completion=True).as_long())) for i in range(ln))).decode()
    return dict(input_b64=base64.b64encode(bytes(data)).decode(), opts=opts, L=L)


def run_task(task):
    """One path of one unit.  Returns a picklable dict."""
    ui, prefix = task
    from pyvc.verify import run_path
    from pyvc.values import Unsupported
    from pyvc import solver
    ctx = _ctx()
    units = run_task.units
    unit = units[ui]
    res = dict(ui=ui, prefix=prefix, obligations=[], trail=[], outcome=None, error=None)
    before = (set(ctx.assumed), set(ctx.inlined), set(ctx.unrolled), set(ctx.contracts_used), dict(ctx.findings_present),
              set(ctx.findings_absent), set(ctx.ghost_assumes))
    t0 = time.time()
    try:
        m, outcome = run_path(ctx, unit, prefix)
        res["trail"] = m.trail
        res["outcome"] = outcome[0] if outcome else "end"
        res["entry_feasible"] = bool(getattr(m, "entry_feasible", False))
        for ob in m.obligations:
            d = dict(id=ob.oid, verdict=ob.verdict, backend=ob.backend, seconds=ob.seconds, detail=ob.detail, path=ob.pathsig)
            if ob.verdict in ("refuted", "candidate") and ob.model is not None:
                # entry options fixed by this path's parameter forks
                inp = extract_input(ob.model, unit)
                if inp is not None and "opts" in inp:
                    for nme, kind in unit.get("params", {}).items():
                        if kind == "optint":
                            v = m.entry_env.vars.get(nme)
                            import z3
                            inp["opts"][nme] = None if v is None else ob.model.eval(z3.Int(nme), model_completion=True).as_long()
                d["input"] = inp
            res["obligations"].append(d)
    except Unsupported as e:
        res["error"] = "unsupported: %s" % e
    except RecursionError:
        res["error"] = "recursion limit in the symbolic executor"
    res["seconds"] = time.time() - t0
    res["assumed"] = sorted(ctx.assumed)
    res["inlined"] = sorted(ctx.inlined)
    res["unrolled"] = sorted(ctx.unrolled)
    res["contracts_used"] = sorted(ctx.contracts_used)
    res["findings_present"] = dict(ctx.findings_present)
    res["findings_absent"] = sorted(ctx.findings_absent)
    res["ghost_assumes"] = sorted(ctx.ghost_assumes)
    res["degraded"] = sorted(ctx.degraded)
    res["hashes"] = dict(ctx.source.hashes)
    res["solver"] = dict(solver.stats)
    return res


def explore(units, nproc):
    """Parallel DFS over (unit, decision prefix): each task runs one path; the untried alternatives of every
    decision it made beyond its fixed prefix become new tasks."""
    run_task.units = units
    results = []
    ctxm = mp.get_context("fork")
    # wall-clock budget of the whole exploration: the unchanged tree needs about 90 s on 16 cores; a tree on which the path tree of a unit
    # explodes must still get an answer (the units that did not finish are reported as "cannot decide", and the generated-file search runs)
    budget = float(os.environ.get("VERIF_EXPLORE_BUDGET", "600" if os.environ.get("VERIF_TIER", "quick") == "quick" else "2400"))
    t_start = time.time()
    with ctxm.Pool(nproc) as pool:
        pending = []
        owner = {}
        for ui in range(len(units)):
            p0 = pool.apply_async(run_task, ((ui, []),))
            owner[id(p0)] = ui
            pending.append(p0)
        while pending:
            if time.time() - t_start > budget:
                unfinished = sorted({owner.get(id(p)) for p in pending if owner.get(id(p)) is not None})
                pool.terminate()
                for ui in unfinished:
                    results.append(dict(ui=ui, prefix=[], obligations=[], trail=[], outcome=None, seconds=0.0, assumed=[], inlined=[], unrolled=[], contracts_used=[], findings_present={},
                                        findings_absent=[], ghost_assumes=[], degraded=[], hashes={}, solver={},
                                        error="unsupported: exploration budget of %d s exceeded with %d open paths (the path tree of this unit no longer closes in time)" % (budget, len(pending))))
                break
            nxt = []
            progressed = False
            for p in pending:
                if not p.ready():
                    nxt.append(p)
                    continue
                progressed = True
                r = p.get()
                results.append(r)
                fixed = len(r["prefix"])
                trail = r["trail"]
                for k in range(fixed, len(trail)):
                    c, n = trail[k]
                    for alt in range(c + 1, n):
                        newp = [x for x, _ in trail[:k]] + [alt]
                        pn = pool.apply_async(run_task, ((r["ui"], newp),))
                        owner[id(pn)] = r["ui"]
                        nxt.append(pn)
            pending = nxt
            if not progressed:
                time.sleep(0.02)
    return results


def native(tool, data_b64, opts):
    repo = os.environ.get("VERIF_REPO", "/repo")
    req = dict(repo=repo, tool=tool, input_b64=data_b64, opts=opts)
    env = dict(os.environ)
    env["PYTHONPATH"] = repo
    p = subprocess.run(["/venv/bin/python", os.path.join(ROOT, "vcheck", "native_decoder.py")], input=json.dumps(req),
                       capture_output=True, text=True, timeout=300, env=env)
    if p.returncode != 0:
        return dict(outcome="harness-error", message=p.stderr[-500:])
    return json.loads(p.stdout)


def judge(prop, unit, inp):
    """Replay a candidate input on the real code and compare with the executable specification.
    Returns (confirmed, details)."""
    from specs import reference as ref
    rp = unit.get("replay")
    if not rp or not inp or "input_b64" not in inp:
        return False, dict(note="no concrete input could be built from the solver model", model_input=inp)
    tool = rp["tool"]
    data = base64.b64decode(inp["input_b64"])
    mo = inp["opts"]
    opts = {}
    for k, v in rp.get("opts", {}).items():
        opts[k] = mo.get(v)
    if tool == "unsquash":
        data = base64.b64decode(mo.get("data_b64", ""))
        opts = dict(count=mo.get("count", 0), orig_len=mo.get("orig_len", 0))
    real = native(tool, base64.b64encode(data).decode(), opts)
    det = dict(tool=tool, opts=opts, input_b64=base64.b64encode(data).decode(), input_len=len(data),
               real=dict((k, v) for k, v in real.items() if k != "out_b64"))
    if real.get("outcome") == "harness-error":
        return False, det
    out = base64.b64decode(real.get("out_b64", ""))
    det["real"]["out_len"] = len(out)
    ok_return = real["outcome"] == "return" and real.get("result") is not False
    if tool == "veftopng":
        png = real.get("png")
        det["real"]["png"] = png
        if real["outcome"] == "return" and png is not None:
            if "error" in png:
                det["mismatch"] = "success reported but the PNG cannot be read back: %s" % png["error"]
                return True, det
            if len(data) > 1 and data[1] == 4:
                det["note"] = "type 5 (640x200x2): outside the claim (fails loudly inside Pillow)"
                return False, det
            nominal = 18 + (16000 if len(data) > 1 and data[1] == 3 else 32000)
            if data[:1] != b"\x80" and len(data) != nominal:
                det["mismatch"] = "success reported for %d bytes of pixel data where the type byte dictates %d" % (len(data) - 18, nominal - 18)
                return True, det
            if png["samples"] != png["width"] * png["height"]:
                det["mismatch"] = "PNG announces %dx%d but holds %d samples" % (png["width"], png["height"], png["samples"])
                return data[:1] != b"\x80", det      # squashed files with short records: recorded finding
            want_w = 640 if data[1] == 1 else 320
            if prop in ("C16", "C18") and (png["width"], png["height"]) != ((640, 400) if want_w == 640 else (320, 200)):
                det["mismatch"] = "picture is %dx%d, the type byte dictates %s" % (png["width"], png["height"], (640, 400) if want_w == 640 else (320, 200))
                return True, det
        elif prop in ("C16", "C18") and len(data) == 18 + (16000 if len(data) > 1 and data[1] == 3 else 32000) and data[0] != 128 and data[1] in (0, 1, 3) and all(b < 64 for b in data[2:18]):
            det["mismatch"] = "real decoder failed on a well-formed uncompressed VEF"
            return True, det
        return False, det
    if tool == "unsquash" and prop == "C19":
        if real["outcome"] == "return":
            got = base64.b64decode(real.get("result_b64", ""))
            if opts["count"] > len(data):
                det["mismatch"] = "a record announced as %d bytes but only %d present was decoded without error" % (opts["count"], len(data))
                return True, det
            if len(got) > opts["orig_len"]:
                det["mismatch"] = "record longer than its nominal length"
                return True, det
        return False, det
    if tool == "unsquash":
        exp = ref.ref_unsquash(data, opts["count"], opts["orig_len"]) if opts["count"] <= len(data) else None
        if exp is None:
            det["note"] = "input is not a valid squashed record (outside the contract's precondition)"
            return False, det
        got = base64.b64decode(real.get("result_b64", "")) if real["outcome"] == "return" else None
        det["expected_len"] = len(exp)
        return got != exp, det
    if tool == "hrstoppm":
        r = ref.ref_hrs(data, opts.get("width", 320), opts.get("height", 192), opts.get("skip"))
    elif tool == "rattoppm":
        r = ref.ref_rat(data)
    elif tool == "mgetoppm":
        r = ref.ref_mge(data)
    elif tool == "cm3toppm":
        r = ref.ref_cm3(data)
    elif tool == "pixtopgm":
        r = ref.ref_pix(data)
    elif tool == "maxtoppm":
        r = ref.ref_max(data, opts.get("arte", 0), opts.get("newsroom", False), opts.get("cols", 256), opts.get("rows"), opts.get("skip"))
    else:
        r = None
    kc = known_case(tool, data, opts, ref)
    if kc:
        det["note"] = "the model input falls into the recorded known finding %s; a failure there is not a new violation" % kc
        return False, det
    if prop in ("C16", "C17"):
        if r is None:
            det["note"] = "model input is not a well-formed / valid file for the executable specification"
            return False, det
        exp = ref.netpbm(*r)
        det["expected_len"] = len(exp)
        if not ok_return:
            det["mismatch"] = "real decoder failed on a well-formed file"
            return True, det
        if out != exp and tool == "rattoppm":
            # known finding KF-C17-RAT-low-nibble-mask: ignore differences at second pixels of bytes whose low nibble is >= 8
            hdr = len(exp) - len(r[2])
            diff = [i for i in range(min(len(out), len(exp))) if out[i] != exp[i]]
            if len(out) == len(exp) and all(((i - hdr) // 3) % 2 == 1 for i in diff):
                det["note"] = "differences only at low-nibble pixels: recorded known finding KF-C17-RAT-low-nibble-mask"
                # a different mask than the recorded `& 7` still shows up: check the recorded behaviour exactly
                img_ok = True
                body = out[hdr:]
                rr = ref.ref_rat(data)
                if rr is not None:
                    pal = list(data[3:19])
                    # rebuild the image bytes from the reference and test that every second pixel is palette[b & 7]
                    pos, esc, imgb = 19, data[0], bytearray()
                    while len(imgb) < 199 * 160:
                        t = data[pos]
                        if t != esc:
                            imgb.append(t); pos += 1
                        else:
                            imgb += bytes([data[pos + 2]]) * data[pos + 1]; pos += 3
                    for j, b in enumerate(imgb):
                        if body[6 * j + 3:6 * j + 6] != ref.px6(pal[b & 7]):
                            img_ok = False
                            det["mismatch"] = "second pixel of image byte %d (0x%02x) is neither palette[b & 15] nor the recorded palette[b & 7]" % (j, b)
                            break
                return (not img_ok), det
        if out != exp:
            k = next((i for i in range(min(len(out), len(exp))) if out[i] != exp[i]), min(len(out), len(exp)))
            det["mismatch"] = "first differing output byte at offset %d (real %s, expected %s)" % (
                k, out[k] if k < len(out) else None, exp[k] if k < len(exp) else None)
            return True, det
        return False, det
    # C18 / C19: a successful run must have written a complete image of the announced size
    if ok_return:
        ph = ref.parse_netpbm(out)
        if ph is None:
            det["mismatch"] = "success reported but the output has no Netpbm header"
            return True, det
        magic, w, h, body = ph
        ch = 3 if magic == "P6" else 1
        det["announced"] = [w, h]
        det["samples_written"] = len(body)
        if len(body) != ch * w * h:
            det["mismatch"] = "success reported with %d samples under a header announcing %dx%d (%d samples)" % (len(body), w, h, ch * w * h)
            return True, det
        if r is not None and (w, h) != (r[0], r[1]):
            det["mismatch"] = "header announces %dx%d, the format/options dictate %dx%d" % (w, h, r[0], r[1])
            return True, det
        if tool == "maxtoppm":
            dm = ref.max_dims(data, opts.get("newsroom", False), opts.get("cols", 256), opts.get("rows"), opts.get("skip"))
            if dm is not None and (w, h) != (dm[0], dm[1]):
                det["mismatch"] = "header announces %dx%d, the format/options dictate %dx%d" % (w, h, dm[0], dm[1])
                return True, det
    elif prop == "C18" and r is not None:
        det["mismatch"] = "real decoder failed on a well-formed file"
        return True, det
    return False, det


def known_case(tool, data, opts, ref):
    """Is this concrete input inside a case recorded in known_findings.json?  (The proof side excludes these cases
    through the `when` clauses of the contracts; the replay side must not 'confirm' a failure with one of them.)"""
    if tool == "hrstoppm" and opts.get("width", 320) % 2 == 1:
        return "KF-C18-HRS-odd-width"
    if tool == "maxtoppm":
        dm = ref.max_dims(data, opts.get("newsroom", False), opts.get("cols", 256), opts.get("rows"), opts.get("skip"))
        if dm is not None:
            w, h, hs = dm
            if w % 8:
                return "KF-C18-MAX-width-not-multiple-of-8"
    return None


def clause_id(oid):
    return oid


def run(prop, tier, rep):
    nproc = int(os.environ.get("VERIF_JOBS", "16"))
    units = units_for(prop)
    if not units:
        rep.errors.append("no units for " + prop)
        return
    results = explore(units, nproc)
    aux_variant = {}
    by_unit = {}
    seen = set()
    present, absent = {}, set()
    degraded = {}
    for r in results:
        u = units[r["ui"]]
        by_unit.setdefault(r["ui"], []).append(r)
        if r["error"]:
            rep.errors.append("%s@%s: %s" % (u["name"], u["tag"], r["error"]))
        for msg in r.get("degraded", []):
            degraded.setdefault(r["ui"], set()).add(msg)
        rep.assumptions += r["assumed"]
        rep.assumptions += ["inlined (verified as part of its caller, no contract of its own): " + x for x in r["inlined"]]
        rep.assumptions += ["loop unrolled completely: " + x for x in r["unrolled"]]
        rep.assumptions += ["ghost assumption defining the unit's precondition [%s]: %s" % ga for ga in map(tuple, r["ghost_assumes"])]
        for k, v in r["findings_present"].items():
            present.setdefault(k, v)
        absent.update(r["findings_absent"])
        rep.extra.setdefault("source_sha256", {}).update(r["hashes"])
        for ob in r["obligations"]:
            key = (ob["id"], ob["path"])
            if key in seen:
                continue
            seen.add(key)
            ob["ui"] = r["ui"]
            if ob["id"].endswith(".variant.from-loop-test"):
                # auxiliary measure read off the loop test: never an obligation of its own, only used to excuse a contract variant
                k2 = (r["ui"], ob["id"].rsplit("/", 1)[-1].split(".")[0])
                aux_variant[k2] = aux_variant.get(k2, True) and ob["verdict"] == "proved"
                continue
            rep.add_obligation(ob["id"], "proved" if ob["verdict"] == "proved" else ob["verdict"], ob["backend"], ob["seconds"], ob["detail"], ob["path"])
            if ob["verdict"] != "proved":
                by_unit.setdefault(("bad", ob["id"]), []).append(ob)
    # vacuity guards
    for ui, u in enumerate(units):
        rs = by_unit.get(ui, [])
        if not any(r.get("entry_feasible") for r in rs) and not any(r["error"] for r in rs):
            rep.errors.append("%s@%s: precondition unsatisfiable on every entry case (vacuous contract)" % (u["name"], u["tag"]))
        nob = sum(len(r["obligations"]) for r in rs)
        if nob == 0 and not any(r["error"] for r in rs):
            rep.errors.append("%s@%s: generated no obligations" % (u["name"], u["tag"]))
        rep.functions.append(dict(function=u["name"], contract_tag=u["tag"], paths=len(rs),
                                  normal_exits=sum(1 for r in rs if r["outcome"] == "return"),
                                  exceptional_exits=sum(1 for r in rs if r["outcome"] == "raise")))
        failed_here = any(ob["verdict"] != "proved" for r in rs for ob in r["obligations"])
        if u["tag"] != "*" and "ensures" in u and not any(r["outcome"] == "return" for r in rs) and not any(r["error"] for r in rs) and not failed_here:
            rep.errors.append("%s@%s: no path reaches a normal return (cover failed)" % (u["name"], u["tag"]))
    # failed obligations
    witness_cache = {}
    for key, obs in list(by_unit.items()):
        if not (isinstance(key, tuple) and key[0] == "bad"):
            continue
        oid = key[1]
        unit = units[obs[0]["ui"]]
        confirmed, payload = False, None
        tried = 0
        for ob in obs:
            if ob.get("input") and tried < 4:
                tried += 1
                ok, det = judge(prop, unit, ob["input"])
                payload = dict(detail=ob["detail"], path=ob["path"], solver_verdict=ob["verdict"], backend=ob["backend"], replay=det,
                               replay_cmd="./check %s --replay <this file>" % prop)
                if ok:
                    confirmed = True
                    break
        if payload is None:
            payload = dict(detail=obs[0]["detail"], path=obs[0]["path"], solver_verdict=obs[0]["verdict"], backend=obs[0]["backend"],
                           replay=dict(note="the solver produced no model for this obligation"))
        verdicts = {o["verdict"] for o in obs}
        last = oid.rsplit("/", 1)[-1]
        if last.endswith(".variant.decreases") and aux_variant.get((obs[0]["ui"], last.split(".")[0])):
            # the contract's measure no longer decreases, but the measure read off the loop test does on every path: the loop
            # still terminates (the code was rewritten, the termination claim holds)
            rep.assumptions.append("termination of %s shown with the measure of the loop test instead of the contract's variant" % oid)
            for o in rep.obligations:
                if o["id"] == oid and o["verdict"] != "proved":
                    o["verdict"], o["backend"] = "proved", "z3 (measure re-derived from the loop test)"
            continue
        # property clauses: postconditions, exceptional postconditions, callee effects, and the stream contract (a decoder may
        # only read its input forward: that is what makes a pipe equal to a file, C18)
        is_clause = re.search(r"/(post|raises|raises_when|effect)\.|/stream-contract", oid) is not None
        if not confirmed and verdicts & {"refuted", "candidate"} and unit.get("replay"):
            # the solver's own counterexample did not replay (weakened invariants, or no model at all): look for a concrete
            # file on which the real decoder contradicts the executable specification - it only decorates the report
            tool = unit["replay"]["tool"]
            if tool not in witness_cache:
                try:
                    from vcheck import differential
                    witness_cache[tool] = differential.find_failing(prop, tool)
                except Exception as e:  # noqa
                    witness_cache[tool] = None
            w = witness_cache[tool]
            if w is not None:
                payload = dict(payload, replay=w, note="failing input found by the generated-file search after the obligation failed")
                confirmed = True
        if confirmed:
            rep.violation(oid, payload, True)
        elif degraded.get(obs[0]["ui"]):
            msg = "%s fails, but %s; no replay confirmed a failure on the real code: cannot decide" % (oid, "; ".join(sorted(degraded[obs[0]["ui"]])))
            if msg not in rep.errors:
                rep.errors.append(msg)
        elif verdicts & {"refuted", "candidate"} and is_clause:
            # a clause of the contract taken from the property (postcondition / exceptional postcondition / callee effect) fails;
            # the solver's input did not replay and the generated files found no failing input either
            rep.violation(oid, payload, False)
        elif verdicts & {"refuted", "candidate"}:
            # proof scaffolding (invariant, variant, lemma, callee precondition) no longer holds on this tree and no failing input
            # was found: the proof is broken, the property is not shown to be - undecided, not a violation
            rep.undecided.append("%s  [proof scaffolding fails on this tree; no failing input found by replay or by the generated-file search]" % oid)
        else:
            rep.undecided.append(oid)
    for fid, where in sorted(present.items()):
        rep.known_finding(fid, where)
    if rep.errors and not rep.violations:
        # a unit could not be verified at all (construct outside the engine's subset): before answering "cannot decide", look for
        # a generated file on which the real decoder contradicts the executable specification - a real failing input is a
        # violation whatever the state of the proof
        tried = set()
        for ui, u in enumerate(units):
            rs = by_unit.get(ui, [])
            tool = (u.get("replay") or {}).get("tool")
            if tool and tool not in tried and any(r["error"] for r in rs):
                tried.add(tool)
                try:
                    from vcheck import differential
                    w = differential.find_failing(prop, tool)
                except Exception:  # noqa
                    w = None
                if w is not None:
                    rep.violation("%s/%s/generated-file search after the unit could not be verified" % (prop, u["name"]),
                                  dict(detail="; ".join(sorted({r["error"] for r in rs if r["error"]}))[:300], replay=w,
                                       note="the proof could not be attempted; this input shows the property violated on the real code"), True)
    if prop in ("C17", "C18") and not os.environ.get("VERIF_ONLY_UNITS"):
        # the record walk of veftopng.start (squashed files) is under contract only through unsquash: bounded stand-in on whole files
        try:
            from vcheck import differential
            differential.run_tool(prop, rep, "veftopng", rep.seed, "squashed VEF files through start(): record walk not under contract")
        except Exception as e:  # noqa
            rep.errors.append("VEF stand-in could not run: %s: %s" % (type(e).__name__, str(e)[:300]))
    if prop in ("C18", "C19") and not os.environ.get("VERIF_ONLY_UNITS"):
        # static frame rule on how the decoders open their files (a pipe equals a file, an output file is created empty)
        from vcheck import io_rules
        t0 = time.time()
        probs = io_rules.scan(os.environ.get("VERIF_REPO", "/repo"))
        oid = "%s/io/files are opened for plain buffered reading or truncating writing" % prop
        rep.add_obligation(oid, "proved" if not probs else "refuted", "ast-scan", time.time() - t0, "; ".join(probs))
        if probs:
            rep.violation(oid, dict(detail="static rule over the decoder sources", replay=dict(problems=probs)), False)
    if prop == "C16" and not os.environ.get("VERIF_ONLY_UNITS"):
        # PIX pixel positions are under contract (unit tag C16); this small bounded stand-in still runs with every C16 check as a cross-check
        try:
            from vcheck import differential
            differential.run_tool(prop, rep, "pixtopgm", rep.seed, "cross-check of the PIX pixel contract (unit tag C16) against CPython on generated files")
        except Exception as e:  # noqa
            rep.errors.append("PIX stand-in could not run: %s: %s" % (type(e).__name__, str(e)[:300]))
    if prop == "C19" and not os.environ.get("VERIF_ONLY_UNITS"):
        # "the stream ends inside a token" has no clause of its own in the contracts (the output of such a run can be complete and of the
        # right size): a bounded stand-in over files damaged at the places the format makes critical runs with every C19 check
        try:
            from vcheck import differential
            differential.run_family(prop, rep, "damaged-t", rep.seed, "short prefixes, cuts inside the last token, lowered control bytes, changed fixed bytes")
        except Exception as e:  # noqa
            rep.errors.append("damaged-file stand-in could not run: %s: %s" % (type(e).__name__, str(e)[:300]))
        try:
            from vcheck import cli_loud
            n, nbad = cli_loud.run(prop, rep)
            rep.extra["cli_runs"] = dict(runs=n, silent_failures=nbad)
        except Exception as e:  # noqa
            rep.errors.append("CLI stand-in could not run: %s: %s" % (type(e).__name__, str(e)[:300]))
    if tier == "thorough" and not rep.errors:
        # bounded stand-ins next to the proofs (never counted as discharged): generated files through the real decoder vs
        # the executable specification; witnesses of the recorded findings (open ones reproduce, repaired ones stay repaired)
        from vcheck import differential, findings_witness
        try:
            ncases, nbad = differential.run(prop, rep, rep.seed, scale=2)
            rep.extra["differential"] = dict(files=ncases, mismatches=nbad)
        except Exception as e:  # noqa
            rep.errors.append("differential stand-in could not run: %s: %s" % (type(e).__name__, str(e)[:300]))
        try:
            res = findings_witness.check_all(verbose=False)
            mine = {k: v for k, v in res.items() if findings_witness.witnesses()[k][0] == prop}
            for fid, (fails, why, outcome) in sorted(mine.items()):
                fixed = fid in findings_witness.FIXED
                rep.bounded.append(dict(check="%s/witness/%s" % (prop, fid), bound="one concrete witness file of a %s finding" % ("repaired" if fixed else "recorded"),
                                        held=(not fails) if fixed else True, reproduces=bool(fails)))
                if fixed and fails:
                    tool, data = findings_witness.witnesses()[fid][1:3]
                    rep.violation("%s/witness/%s" % (prop, fid), dict(detail="the repaired defect is back: " + why, replay=dict(
                        tool=tool, input_b64=base64.b64encode(data).decode(), opts=findings_witness.witnesses()[fid][3])), True)
                elif not fixed and not fails:
                    rep.extra.setdefault("findings_not_reproduced", []).append(fid)
        except Exception as e:  # noqa
            rep.errors.append("finding witnesses could not run: %s: %s" % (type(e).__name__, str(e)[:300]))
    rep.trusted_base += TRUSTED
    rep.extra["paths"] = len(results)
    rep.extra["contracts"] = [dict(function=u["name"], tag=u["tag"],
                                   requires=u.get("requires", []), ensures=[c["post"] for c in u.get("ensures", [])],
                                   loops={str(k): [iv["text"] if isinstance(iv, dict) else iv for iv in v.get("inv", [])] for k, v in u.get("loops", {}).items()})
                              for u in units][:40]
    rep.samples = [dict(obligation=o["id"], clause=o["detail"], path=o["path"], verdict=o["verdict"], backend=o["backend"])
                   for o in rep.obligations if o["detail"]][:10]
    rep.extra["solver_stats"] = {}
    for r in results:
        for k, v in r["solver"].items():
            pass


def replay(prop, path, rep):
    """Re-run the native execution recorded in a replay file; exit 1 if the mismatch is still there."""
    d = json.load(open(path))
    rp = d.get("replay", {})
    if "case" in rp and "mode" in rp:
        from vcheck import cli_loud
        n, nbad = cli_loud.run(prop, rep)
        still = [v for v in rep.violations if v["obligation"].endswith("/%s/%s/%s" % (rp["tool"], rp["case"], rp["mode"]))]
        print("still fails" if still else "no mismatch")
        return 1 if still else 0
    if rp.get("label") and rp.get("family") and rp.get("input_b64"):
        # an input found by the generated-file search: judged again the same way (real decoder vs executable specification)
        from vcheck import differential
        bad, _ = differential.evaluate(prop, [(rp["tool"], base64.b64decode(rp["input_b64"]), rp.get("opts", {}), rp["label"], rp["family"])])
        print(json.dumps(bad[0]["mismatch"] if bad else "no mismatch"))
        return 1 if bad else 0
    if "input_b64" not in rp:
        print("replay file carries no concrete input (obligation %s): nothing to execute" % d.get("obligation"))
        return 1 if not d.get("confirmed_on_real_code") else 1
    from specs import decoders
    unit = next((u for u in decoders.CONTRACTS if u.get("replay", {}).get("tool") == rp["tool"]), None)
    inv = {v: k for k, v in unit["replay"].get("opts", {}).items()}
    inp = dict(input_b64=rp["input_b64"], opts={inv.get(k, k): v for k, v in rp.get("opts", {}).items()})
    if rp["tool"] == "unsquash":
        inp["opts"] = dict(data_b64=rp["input_b64"], count=rp["opts"]["count"], orig_len=rp["opts"]["orig_len"])
    ok, det = judge(prop, unit, inp)
    print(json.dumps(det.get("mismatch", "no mismatch")))
    return 1 if ok else 0
