#!/bin/sh
# Offline setup: nothing is built; verify the tools the checks need are present.
set -e
cd "$(dirname "$0")"
python3-vt -c "import z3; print('z3', z3.get_version_string())"
/venv/bin/python -c "import coco, parsimonious; print('repo importable')"
mkdir -p evidence replays
echo setup ok
