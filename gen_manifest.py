#!/usr/bin/env python3
import json, os, sys
sys.path.insert(0, os.path.dirname(os.path.abspath(__file__)))
import registry

BASE = "cd /repo && /venv/bin/python -m pytest -ra -q -p no:cacheprovider --timeout=900 --continue-on-collection-errors"
m = {
    "version": 1,
    "setup_cmd": "./setup.sh",
    "hooks": {
        "guard": "COCO_TOOLS_VERIF",
        "enable": "none needed: contracts are sidecar files under /verif/specs; checks read /repo's working tree as text and replay through public entry points",
        "baseline_off_cmd": BASE,
        "source_commits": [],
        "add_only": True,
    },
    "engines": [
        {"name": "pyvc", "path": "pyvc/", "serves_properties": sorted(k for k, v in registry.CLAIMED.items() if v["engine"] == "pyvc"),
         "kind_free_text": "verification-condition generator for the Python subset of /repo (ast -> symbolic execution against sidecar contracts in specs/ -> z3/cvc5)"},
        {"name": "tx", "path": "tx/", "serves_properties": sorted(k for k, v in registry.CLAIMED.items() if v["engine"] == "tx"),
         "kind_free_text": "contract checker for the transpiler: real methods, real grammar rules and real passes executed by CPython on opaque (parametric) parts against class / rule / pass contracts; BASIC09 library read as text (signatures, bounded evaluator)"},
    ],
    "checks": [],
    "not_applicable": [],
    "notes": "Technique family: contract-based deductive verification of the real code. See DESIGN.md.",
}
for p in registry.PROPS:
    c = registry.CLAIMED.get(p)
    if c is None:
        m["not_applicable"].append({"property_id": p, "reason": registry.NA_REASON.get(p, registry.NOT_REACHED) if hasattr(registry, "NA_REASON") else registry.NOT_REACHED})
        continue
    m["checks"].append({
        "property_id": p,
        "quick_cmd": "./check %s --tier quick" % p,
        "thorough_cmd": "./check %s --tier thorough" % p,
        "evidence_file": "evidence/%s.json" % p,
        "replay_cmd_template": "./check %s --replay {path}" % p,
        "engine": c["engine"],
        "level_claimed": {"category": c.get("category", "proof"), "text": c["level_text"], "design_ref": c.get("design_ref", "DESIGN.md section 5, " + p)},
        "level_note": c["level_note"],
        "technique": c["technique"],
    })
json.dump(m, open(os.path.join(os.path.dirname(os.path.abspath(__file__)), "MANIFEST.json"), "w"), indent=1)
print("checks:", len(m["checks"]), "not_applicable:", len(m["not_applicable"]))
