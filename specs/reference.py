"""Executable form of the decoder specifications, used ONLY to replay a solver counterexample on the real
code (never to reach a verdict).  Written from the format definitions quoted in the properties: pure stdlib,
runs under any Python.  Each ref_* returns None when the input is not a well-formed / valid file of that
format, else (width, height, body_bytes, channels)."""

C2R = [0, 21, 2, 20, 6, 49, 35, 4, 33, 5, 14, 1, 12, 10, 3, 28, 7, 17, 16, 22, 48, 34, 37, 32, 44, 40, 42, 13, 8, 11, 24,
       26, 56, 19, 18, 50, 54, 52, 38, 36, 46, 45, 41, 15, 9, 25, 27, 30, 63, 58, 23, 51, 55, 53, 39, 60, 47, 61, 43, 57,
       29, 31, 59, 62]


def px6(c):
    return bytes([(((c >> 5) & 1) * 2 + ((c >> 2) & 1)) * 85, (((c >> 4) & 1) * 2 + ((c >> 1) & 1)) * 85,
                  (((c >> 3) & 1) * 2 + (c & 1)) * 85])


def render16(pal, img):
    return b"".join(px6(pal[b >> 4]) + px6(pal[b & 15]) for b in img)


def ref_hrs(data, width=320, height=192, skip=None):
    d = data[skip or 0:]
    hw = width // 2
    if width % 2 or len(d) < 16 + height * hw:
        return None
    pal = list(d[:16])
    return width, height, render16(pal, d[16:16 + height * hw]), 3


def ref_rat(data):
    if len(data) < 19 or data[1] == 0:
        return None
    esc, pal = data[0], list(data[3:19])
    img = bytearray()
    pos = 19
    n = 199 * 160
    while len(img) < n:
        if pos >= len(data):
            return None
        t = data[pos]
        if t != esc:
            img.append(t)
            pos += 1
        else:
            if pos + 2 >= len(data):
                return None
            img += bytes([data[pos + 2]]) * data[pos + 1]
            pos += 3
    if len(img) != n:
        return None
    return 320, 199, render16(pal, img), 3


def ref_mge(data):
    if len(data) < 51 or data[0] != 0 or 0 not in data[19:49]:
        return None
    pal = list(data[1:17])
    if data[17] != 0:
        if any(p >= 64 for p in pal):
            return None
        pal = [C2R[p] for p in pal]
    n = 32000
    if data[18] != 0:
        if len(data) < 51 + n:
            return None
        img = data[51:51 + n]
    else:
        img = bytearray()
        pos = 51
        while True:
            if pos >= len(data):
                return None
            c = data[pos]
            if c == 0:
                break
            if pos + 1 >= len(data) or len(img) + c > n:
                return None
            img += bytes([data[pos + 1]]) * c
            pos += 2
        if len(img) != n:
            return None
    return 320, 200, render16(pal, img), 3


BR2 = [[0, 0, 0], [255, 85, 0], [0, 170, 255], [255, 255, 255]]
BR3 = [[0, 0, 0], [255, 0, 0], [0, 0, 255], [255, 255, 255]]
SEMIG = [[0, 0, 0], [0, 255, 0], [255, 255, 0], [0, 0, 255], [255, 0, 0], [255, 255, 255], [0, 211, 170], [204, 0, 255],
         [255, 128, 0]]


def max_dims(data, newsroom, cols, rows, skip):
    d = data[skip or 0:]
    if newsroom:
        if len(d) < 2:
            return None
        return d[0] * 8, d[1], 2
    if len(d) < 5:
        return None
    if not rows:
        rows = 8 * (d[1] * 256 + d[2]) // cols
    return cols, rows, 5


def ref_max(data, arte, newsroom, cols, rows, skip):
    dims = max_dims(data, newsroom, cols, rows, skip)
    if dims is None:
        return None
    w, h, hs = dims
    d = data[(skip or 0) + hs:]
    if w % 8 or len(d) < (w // 8) * h or arte in (1, 2):
        return None
    body = bytearray()
    for v in d[:(w // 8) * h]:
        if arte == 0:
            for k in range(8):
                body += bytes(BR2[((v >> (7 - k)) & 1) * 3])
        else:
            for k in range(4):
                hi, lo = (v >> (7 - 2 * k)) & 1, (v >> (6 - 2 * k)) & 1
                if arte == 3:
                    c = BR2[hi * 2 + lo]
                elif arte == 4:
                    c = BR2[hi + lo * 2]
                elif arte == 5:
                    c = BR3[hi * 2 + lo]
                elif arte == 6:
                    c = BR3[hi + lo * 2]
                elif arte == 7:
                    c = SEMIG[1 + hi + lo * 2]
                else:
                    c = SEMIG[5 + hi + lo * 2]
                body += bytes(c) * 2
    return w, h, bytes(body), 3


def isqrt(x):
    r = int(x ** 0.5)
    while r * r > x:
        r -= 1
    while (r + 1) * (r + 1) <= x:
        r += 1
    return r


def ref_pix(data):
    side = isqrt(2 * len(data))
    if side * side != 2 * len(data) or side % 2:
        return None
    s = bytearray(side * side)
    k = 0
    for y in range(side):
        for x in range(side // 2):
            v = data[k]
            k += 1
            s[(2 * x) * side + y] = 255 - (v >> 4) * 17
            s[(2 * x + 1) * side + y] = 255 - (v & 15) * 17
    return side, side, bytes(s), 1


def ref_cm3(data):
    if len(data) < 29:
        return None
    pages = ((data[0] >> 7) & 1) + 1
    pal = list(data[1:17])
    pos = 29 + (0 if data[0] & 1 else 243)
    prev = [0] * 160
    img = bytearray()
    for _ in range(pages):
        if pos >= len(data) or data[pos] != 192:
            return None
        pos += 1
        for _line in range(192):
            if pos >= len(data):
                return None
            contr = data[pos]
            pos += 1
            cur = list(prev)
            if contr >= 128:
                if pos + 160 > len(data):
                    return None
                cur = list(data[pos:pos + 160])
                pos += 160
            else:
                if pos + 20 + contr > len(data):
                    return None
                sel1 = data[pos:pos + 20]
                sel2 = data[pos + 20:pos + 20 + contr]
                pos += 20 + contr
                k2 = 0
                for x in range(160):
                    if not (sel1[x >> 3] >> (7 - (x & 7))) & 1:
                        cur[x] = cur[(x - 1) % 160]     # left neighbour in raster order (column 0: end of line above)
                    else:
                        if k2 >> 3 >= len(sel2):
                            return None
                        b = (sel2[k2 >> 3] >> (7 - (k2 & 7))) & 1
                        k2 += 1
                        if b:
                            if pos >= len(data):
                                return None
                            cur[x] = data[pos]
                            pos += 1
                        # else: byte above, already in cur
            img += bytes(cur)
            prev = cur
    return 320, 192 * pages, render16(pal, img), 3


def ref_unsquash(data, count, orig_len):
    out = bytearray()
    i = 0
    while i < count:
        c = data[i]
        if c > 128:
            if i + 2 > count:
                return None
            out += bytes([data[i + 1]]) * (c - 128)
            i += 2
        else:
            if i + 1 + c > count:
                return None
            out += bytes(data[i + 1:i + 1 + c])
            i += 1 + c
    return bytes(out[:orig_len])


def netpbm(w, h, body, ch):
    return ("P%d\n%d %d\n255\n" % (6 if ch == 3 else 5, w, h)).encode() + body


def parse_netpbm(out):
    """(magic, w, h, body) or None"""
    import re
    m = re.match(rb"(P[56])\n(\d+) (\d+)\n255\n", out)
    if not m:
        return None
    return m.group(1).decode(), int(m.group(2)), int(m.group(3)), out[m.end():]


def ref_vef(data):
    """(width, height of the PNG, palette indices row by row, number of source lines) or None.  Types: byte 1 = 0 -> 320x200x16,
    1 -> 640x200x4 (stretched to 640x400 by line doubling), 3 -> 320x200x4; byte 0 = 128 -> 400 squashed records."""
    if len(data) < 18 or data[1] not in (0, 1, 3):
        return None
    w, colors, rec = {0: (320, 16, 80), 1: (640, 4, 80), 3: (320, 4, 40)}[data[1]]
    pal = list(data[2:18])
    if any(p >= 64 for p in pal):
        return None
    if data[0] == 128:
        body = bytearray()
        pos = 18
        for _ in range(400):
            if pos >= len(data):
                return None
            cnt = data[pos]
            recd = data[pos + 1:pos + 1 + cnt]
            if len(recd) != cnt:
                return None
            r = ref_unsquash(recd, cnt, rec)
            if r is None or len(r) != rec:
                return None
            body += r
            pos += 1 + cnt
    else:
        body = data[18:]
    px = []
    for b in body:
        if colors == 16:
            px += [pal[b >> 4], pal[b & 15]]
        else:
            px += [pal[b >> 6], pal[(b >> 4) & 3], pal[(b >> 2) & 3], pal[b & 3]]
    if len(px) != w * 200:
        return None
    if w == 640:
        rows = [px[i * 640:(i + 1) * 640] for i in range(200)]
        px = [v for r in rows for v in (r + r)]
        return 640, 400, px, 200
    return 320, 200, px, 200
