"""Sidecar contracts for coco/util.py and the image decoders (family F1)."""

CONTRACTS = []


def contract(**kw):
    kw.setdefault("tag", "*")
    kw.setdefault("name", kw["module"] + "." + kw["qualname"])
    CONTRACTS.append(kw)
    return kw


# ------------------------------------------------------------------ coco.util
contract(module="coco.util", qualname="getbit",
         params=dict(c="int", ii=("enum", list(range(8)))),
         requires=["0 <= c", "c <= 255", "0 <= ii", "ii <= 7"],
         returns="(c >> ii) % 2", arbitrary_entry_streams=True,
         raises=[])
contract(module="coco.util", qualname="pack",
         params=dict(a="list"),
         requires=["forall(0, len(a), lambda j: 0 <= a[j] and a[j] <= 255)"],
         returns="as_str(a)", arbitrary_entry_streams=True, raises=[])
contract(module="coco.util", qualname="iotostr",
         params=dict(x="bytes"), requires=[], returns="as_str(x)", arbitrary_entry_streams=True, raises=[])
contract(module="coco.util", qualname="strtoio",
         params=dict(x="str"), requires=["forall(0, len(x), lambda j: 0 <= x[j] and x[j] <= 255)"],
         returns="as_bytes(x)", passthrough_fmt=True, arbitrary_entry_streams=True, raises=[])

DUMP = dict(params=dict(x="int"), free=dict(palette="list", out="outstream"),
            requires=["0 <= x", "x < len(palette)", "0 <= palette[x]", "palette[x] <= 255"],
            writes=["px6r(palette[x])", "px6g(palette[x])", "px6b(palette[x])"],
            arbitrary_entry_streams=True, raises=[], reveal=["px6r", "px6g", "px6b"])

# ------------------------------------------------------------------ coco.hrstoppm
contract(module="coco.hrstoppm", qualname="convert.dump", **DUMP)

HRS_PARAMS = dict(input_image_stream="instream", output_image_stream="outstream", width="int", height="int", skip="optint")
HRS_GHOST = "base = 0 if skip is None else skip\nhw = width // 2"
HRS_PX = "forall(0, {K}, lambda j: byte16_at(out, 6*j, subseq(inp, base, base+16), inp[base+16+j]))"
contract(module="coco.hrstoppm", qualname="convert", tag="C16",
         params=HRS_PARAMS, ghost_entry=HRS_GHOST,
         requires=["width >= 1", "height >= 1", "skip is None or skip >= 0",
                   "width % 2 == 0", "L >= base + 16 + height*hw"],
         lemmas=["height*hw >= 0", "width*height == 2*(hw*height)"],
         loops={
             0: dict(inv=["pos == base + 16 + hw*jj", "n == 6*hw*jj", HRS_PX.format(K="hw*jj")],
                     lemmas=["hw*(jj+1) == hw*jj + hw", "hw*jj >= 0", "implies(jj < height, hw*jj + hw <= hw*height)"]),
             1: dict(inv=["pos == base + 16 + hw*jj + ii", "n == 6*(hw*jj + ii)", HRS_PX.format(K="hw*jj + ii")]),
         },
         ensures=[
             dict(id="header", post="hdr == fmt('P6\\n{} {}\\n255\\n', width, height)"),
             dict(id="length", post="n == 3*width*height"),
             dict(id="pixels", post=HRS_PX.format(K="height*hw")),
         ],
         raises=[])

# the same closure when callers need its failure behaviour (C19: any byte string, short palettes included)
DUMP_LOUD = dict(params=dict(x="int"), free=dict(palette="list", out="outstream"),
                 requires=["0 <= x"],
                 raises_when=[("IndexError", "x >= len(palette)")],
                 writes=["px6r(palette[x])", "px6g(palette[x])", "px6b(palette[x])"],
                 arbitrary_entry_streams=True, raises=[], reveal=["px6r", "px6g", "px6b"])

# ------------------------------------------------------------------ coco.rattoppm
RAT_PARAMS = dict(input_image_stream="instream", output_image_stream="outstream")
RAT_N = 199 * 160
RAT_PX = "forall(0, {K}, lambda j: byte16_at(out, 6*j, subseq(inp, 3, 19), img[j]))"
RAT_GHOST_TOKEN = """
tok = inp[pos]
if tok != inp[0]:
    run = 1
    val = tok
    tlen = 1
else:
    run = inp[pos + 1]
    val = inp[pos + 2]
    tlen = 3
"""
KF_RAT_LOWNIB = dict(finding="KF-C17-RAT-low-nibble-mask", when="val % 16 >= 8")
contract(module="coco.rattoppm", qualname="convert.dump", **DUMP)
contract(module="coco.rattoppm", qualname="convert.dump", tag="C19", **DUMP_LOUD)
contract(module="coco.rattoppm", qualname="convert", tag="C17",
         params=RAT_PARAMS,
         # "valid encoding of image img": header complete, packed flag set, and the token stream - read by the
         # *definition* of the format (a byte other than the escape byte denotes itself once; escape, n, v denotes n
         # copies of v) - fills exactly 199*160 bytes.  Stated as ghost assumptions along the ghost decoder.
         ghost_entry="img = seq(%d)\nm = 0\nrun = 0\nval = 0\ntlen = 0\ntok = 0" % RAT_N,
         requires=["L >= 19", "inp[1] != 0"],
         loops={
             0: dict(ghost_vars=["img", "m", "run", "val", "tlen", "tok"],
                     ghost_body_start=RAT_GHOST_TOKEN + """
assume(pos + tlen <= L)
assume(m + run <= %d)
img = fill(img, m, m + run, val)
m = m + run
""" % RAT_N,
                     inv=["ii == %d - m" % RAT_N, "n == 6*m", "m >= 0", "m <= %d" % RAT_N, "pos >= 19", RAT_PX.format(K="m")],
                     decreases="L - pos"),
             1: dict(inv=["repeat == run", "c == val", "run >= 0", "ii == %d - (m - run) - jj" % RAT_N, "n == 6*(m - run + jj)",
                          "forall(m - run, m, lambda j: img[j] == val)",
                          dict(text=RAT_PX.format(K="m - run + jj"), known=[KF_RAT_LOWNIB])]),
         },
         ensures=[
             dict(id="header", post="hdr == fmt('P6\\n320 199\\n255\\n')"),
             dict(id="length", post="n == 3*320*199"),
             dict(id="pixels", post=RAT_PX.format(K=RAT_N)),
         ],
         raises=[])
contract(module="coco.rattoppm", qualname="convert", tag="C19",
         params=RAT_PARAMS, requires=[], check_termination=True,
         loops={
             0: dict(inv=["n == 6*(%d - ii)" % RAT_N], decreases="L - pos"),
             1: dict(inv=["n == 6*(%d - ii)" % RAT_N]),
         },
         ensures=[
             dict(id="header", post="hdr == fmt('P6\\n320 199\\n255\\n')"),
             dict(id="complete", post="n == 3*320*199",
                  known=[dict(finding="KF-C19-RAT-run-overshoot", when="ii < 0")]),
         ],
         raises=[dict(id="loud", exc="*", allowed="True")])
