"""Sidecar contracts for coco/util.py and the image decoders (family F1)."""

CONTRACTS = []


REPLAY = {
    "coco.veftopng.start": dict(tool="veftopng"),
    "coco.hrstoppm": dict(tool="hrstoppm", opts=dict(width="width", height="height", skip="skip")),
    "coco.rattoppm": dict(tool="rattoppm"),
    "coco.mgetoppm": dict(tool="mgetoppm"),
    "coco.cm3toppm": dict(tool="cm3toppm"),
    "coco.pixtopgm": dict(tool="pixtopgm"),
    "coco.maxtoppm": dict(tool="maxtoppm", opts=dict(arte="arte", newsroom="newsroom", cols="cols", rows="rows", skip="skip",
                                                     ignore_header_errors="ignore_header_errors")),
    "coco.veftopng": dict(tool="unsquash"),
}


def contract(**kw):
    kw.setdefault("tag", "*")
    kw.setdefault("name", kw["module"] + "." + kw["qualname"])
    if kw["module"] in REPLAY:
        kw.setdefault("replay", dict(tool="veftopng") if (kw["module"], kw["qualname"]) == ("coco.veftopng", "start") else REPLAY[kw["module"]])
    CONTRACTS.append(kw)
    return kw


# ------------------------------------------------------------------ coco.util
contract(module="coco.util", qualname="getbit",
         params=dict(c="int", ii=("enum", list(range(8)))),
         requires=["0 <= c", "c <= 255", "0 <= ii", "ii <= 7"],
         returns="bitat(c, ii)", arbitrary_entry_streams=True,
         raises=[])
contract(module="coco.util", qualname="pack",
         params=dict(a="list"),
         requires=["forall(0, len(a), lambda j: 0 <= a[j] and a[j] <= 255)"],
         returns="as_str(a)", arbitrary_entry_streams=True, raises=[])
contract(module="coco.util", qualname="iotostr",
         params=dict(x="bytes"), requires=[], returns="as_str(x)", arbitrary_entry_streams=True, raises=[])
contract(module="coco.util", qualname="strtoio",
         params=dict(x="str"), requires=["forall(0, len(x), lambda j: 0 <= x[j] and x[j] <= 255)"],
         returns="as_bytes(x)", passthrough_fmt=True, arbitrary_entry_streams=True, raises=[])

DUMP = dict(params=dict(x="int"), free=dict(palette="list", out="outstream"),
            requires=["0 <= x", "x < len(palette)", "0 <= palette[x]", "palette[x] <= 255"],
            writes=["px6r(palette[x])", "px6g(palette[x])", "px6b(palette[x])"],
            arbitrary_entry_streams=True, raises=[], reveal=["px6r", "px6g", "px6b"])

# ------------------------------------------------------------------ coco.hrstoppm
contract(module="coco.hrstoppm", qualname="convert.dump", **DUMP)

HRS_PARAMS = dict(input_image_stream="instream", output_image_stream="outstream", width="int", height="int", skip="optint")
HRS_GHOST = "base = 0 if skip is None else skip\nhw = width // 2"
HRS_PX = "forall(0, {K}, lambda j: byte16_at(out, 6*j, subseq(inp, base, base+16), inp[base+16+j]))"
contract(module="coco.hrstoppm", qualname="convert", tag="C16",
         params=HRS_PARAMS, ghost_entry=HRS_GHOST,
         requires=["width >= 1", "height >= 1", "skip is None or skip >= 0",
                   "width % 2 == 0", "L >= base + 16 + height*hw"],
         lemmas=["height*hw >= 0", "width*height == 2*(hw*height)"],
         loops={
             0: dict(inv=["pos == base + 16 + hw*jj", "n == 6*hw*jj", HRS_PX.format(K="hw*jj")],
                     lemmas=["hw*(jj+1) == hw*jj + hw", "hw*jj >= 0", "implies(jj < height, hw*jj + hw <= hw*height)"]),
             1: dict(inv=["pos == base + 16 + hw*jj + ii", "n == 6*(hw*jj + ii)", HRS_PX.format(K="hw*jj + ii")]),
         },
         ensures=[
             dict(id="header", post="hdr == fmt('P6\\n{} {}\\n255\\n', width, height)"),
             dict(id="length", post="n == 3*width*height"),
             dict(id="pixels", post=HRS_PX.format(K="height*hw")),
         ],
         raises=[])

# the same closure when callers need its failure behaviour (C19: any byte string, short palettes included)
DUMP_LOUD = dict(params=dict(x="int"), free=dict(palette="list", out="outstream"),
                 requires=["0 <= x", "implies(x < len(palette), 0 <= palette[x] and palette[x] <= 255)"],
                 raises_when=[("IndexError", "x >= len(palette)")],
                 writes=["px6r(palette[x])", "px6g(palette[x])", "px6b(palette[x])"],
                 arbitrary_entry_streams=True, raises=[], reveal=["px6r", "px6g", "px6b"])

contract(module="coco.hrstoppm", qualname="convert.dump", tag="C19", **DUMP_LOUD)
contract(module="coco.hrstoppm", qualname="convert", tag="C19", also=["C18"],
         params=HRS_PARAMS, ghost_entry=HRS_GHOST,
         # every byte string, every option value the validators admit
         requires=["width >= 1", "height >= 1", "skip is None or skip >= 0"],
         lemmas=["implies(width % 2 == 0, width*height == 2*(hw*height))"],
         loops={
             0: dict(inv=["n == 6*hw*jj"], lemmas=["hw*(jj+1) == hw*jj + hw"]),
             1: dict(inv=["n == 6*(hw*jj + ii)"]),
         },
         ensures=[
             dict(id="header", post="hdr == fmt('P6\\n{} {}\\n255\\n', width, height)", props=["C18", "C19"]),
             dict(id="complete", post="n == 3*(width*height)", props=["C18", "C19"],
                  known=[dict(finding="KF-C18-HRS-odd-width", when="width % 2 == 1")]),
         ],
         raises=[dict(id="loud", exc="*", allowed="True")])

# ------------------------------------------------------------------ coco.rattoppm
RAT_PARAMS = dict(input_image_stream="instream", output_image_stream="outstream")
RAT_N = 199 * 160
RAT_PX = "forall(0, {K}, lambda j: byte16_at(out, 6*j, subseq(inp, 3, 19), img[j]))"
RAT_GHOST_TOKEN = """
tok = inp[pos]
if tok != inp[0]:
    run = 1
    val = tok
    tlen = 1
else:
    run = inp[pos + 1]
    val = inp[pos + 2]
    tlen = 3
"""
KF_RAT_LOWNIB = dict(finding="KF-C17-RAT-low-nibble-mask", when="val % 16 >= 8")
contract(module="coco.rattoppm", qualname="convert.dump", **DUMP)
contract(module="coco.rattoppm", qualname="convert.dump", tag="C19", **DUMP_LOUD)
contract(module="coco.rattoppm", qualname="convert", tag="C17", also=["C18"],
         params=RAT_PARAMS,
         # "valid encoding of image img": header complete, packed flag set, and the token stream - read by the
         # *definition* of the format (a byte other than the escape byte denotes itself once; escape, n, v denotes n
         # copies of v) - fills exactly 199*160 bytes.  Stated as ghost assumptions along the ghost decoder.
         ghost_entry="img = seq(%d)\nm = 0\nrun = 0\nval = 0\ntlen = 0\ntok = 0" % RAT_N,
         requires=["L >= 19", "inp[1] != 0"],
         loops={
             0: dict(ghost_vars=["img", "m", "run", "val", "tlen", "tok"],
                     ghost_body_start=RAT_GHOST_TOKEN + """
assume(pos + tlen <= L)
assume(m + run <= %d)
img = fill(img, m, m + run, val)
m = m + run
""" % RAT_N,
                     inv=["ii == %d - m" % RAT_N, "n == 6*m", "m >= 0", "m <= %d" % RAT_N, "pos >= 19", RAT_PX.format(K="m")],
                     decreases="L - pos"),
             1: dict(inv=["repeat == run", "c == val", "run >= 0", "ii == %d - (m - run) - jj" % RAT_N, "n == 6*(m - run + jj)",
                          "forall(m - run, m, lambda j: img[j] == val)",
                          dict(text=RAT_PX.format(K="m - run + jj"), known=[KF_RAT_LOWNIB])]),
         },
         ensures=[
             dict(id="header", post="hdr == fmt('P6\\n320 199\\n255\\n')"),
             dict(id="length", post="n == 3*320*199"),
             dict(id="pixels", post=RAT_PX.format(K=RAT_N)),
         ],
         raises=[])
contract(module="coco.rattoppm", qualname="convert", tag="C19",
         params=RAT_PARAMS, requires=[], check_termination=True,
         loops={
             0: dict(inv=["n == 6*(%d - ii)" % RAT_N, "ii >= 0"], decreases="L - pos"),
             1: dict(inv=["n == 6*(%d - ii)" % RAT_N, "ii >= repeat - jj", "ii >= 0"]),
         },
         ensures=[
             dict(id="header", post="hdr == fmt('P6\\n320 199\\n255\\n')"),
             dict(id="complete", post="n == 3*320*199"),
         ],
         raises=[dict(id="loud", exc="*", allowed="True")])

# ------------------------------------------------------------------ coco.mgetoppm
MGE_PARAMS = dict(input_image_stream="instream", output_image_stream="outstream")
MGE_N = 160 * 200
MGE_HDR = "hdr == fmt('P6\\n320 200\\n255\\n')"
MGE_WELLFORMED_HEADER = ["L >= 51", "inp[0] == 0", "exists(19, 49, lambda j: inp[j] == 0)",
                         "inp[17] == 0 or forall(1, 17, lambda j: inp[j] < 64)"]
contract(module="coco.mgetoppm", qualname="convert.dmp500", **DUMP)
contract(module="coco.mgetoppm", qualname="convert.dmp500", tag="C19", **DUMP_LOUD)
MGE_PX_RAW = "forall(0, {K}, lambda j: byte16_at(out, 6*j, mge_palette(inp), inp[51 + j]))"
contract(module="coco.mgetoppm", qualname="convert", tag="C16", also=["C18"],
         params=MGE_PARAMS,
         # uncompressed MGE: compression byte (offset 18) non-zero, 32000 image bytes follow the 51-byte header
         requires=MGE_WELLFORMED_HEADER + ["inp[18] != 0", "L >= 51 + %d" % MGE_N],
         loops={
             3: dict(inv=["pos == 51 + jj", "n == 6*jj", MGE_PX_RAW.format(K="jj")]),
             4: dict(inv=[], decreases="L - pos"),
         },
         ensures=[dict(id="header", post=MGE_HDR, props=["C16", "C18"]),
                  dict(id="length", post="n == 3*320*200", props=["C16", "C18"]),
                  dict(id="pixels", post=MGE_PX_RAW.format(K=MGE_N), props=["C16"])],
         raises=[])
MGE_PX_RLE = "forall(0, {K}, lambda j: byte16_at(out, 6*j, mge_palette(inp), img[j]))"
contract(module="coco.mgetoppm", qualname="convert", tag="C17", also=["C18"],
         params=MGE_PARAMS,
         # run-length MGE: compression byte 0; "valid encoding of img": pairs (count > 0, value) each denoting count
         # copies of value, never running past the 32000th byte, then a count of 0 exactly when the image is full
         requires=MGE_WELLFORMED_HEADER + ["inp[18] == 0"],
         ghost_entry="img = seq(%d)\nm = 0\ncnt = 0\nval = 0" % MGE_N,
         loops={
             1: dict(ghost_vars=["img", "m", "cnt", "val"],
                     ghost_body_start="""
assume(pos < L)
cnt = inp[pos]
val = inp[pos + 1]
assume(implies(cnt == 0, m == %d))
assume(implies(cnt != 0, pos + 1 < L and m + cnt <= %d))
if cnt != 0:
    img = fill(img, m, m + cnt, val)
    m = m + cnt
""" % (MGE_N, MGE_N),
                     inv=["y == %d - m" % MGE_N, "n == 6*m", "0 <= m", "m <= %d" % MGE_N, "pos >= 51", MGE_PX_RLE.format(K="m")],
                     decreases="L - pos"),
             2: dict(inv=["b == cnt", "a == val", "cnt >= 1", "y == %d - (m - cnt) - jj" % MGE_N, "n == 6*(m - cnt + jj)",
                          "forall(m - cnt, m, lambda j: img[j] == val)", MGE_PX_RLE.format(K="m - cnt + jj")]),
             4: dict(inv=[], decreases="L - pos"),
         },
         ensures=[dict(id="header", post=MGE_HDR, props=["C17", "C18"]),
                  dict(id="length", post="n == 3*320*200", props=["C17", "C18"]),
                  dict(id="pixels", post=MGE_PX_RLE.format(K=MGE_N), props=["C17"])],
         raises=[])
contract(module="coco.mgetoppm", qualname="convert", tag="C19",
         params=MGE_PARAMS, requires=[], check_termination=True,
         loops={
             1: dict(inv=["n == 6*(%d - y)" % MGE_N, "y >= 0"], decreases="L - pos"),
             2: dict(inv=["n == 6*(%d - y)" % MGE_N, "y >= b - jj", "y >= 0"]),
             3: dict(inv=["n == 6*jj"]),
             4: dict(inv=[], decreases="L - pos"),
         },
         ensures=[dict(id="header", post=MGE_HDR),
                  dict(id="complete", post="n == 3*320*200")],
         raises=[dict(id="exit-nonzero", exc="SystemExit", allowed="exit_code != 0"),
                 dict(id="loud", exc="TypeError", allowed="True"), dict(id="loud", exc="IndexError", allowed="True"),
                 dict(id="loud", exc="ValueError", allowed="True")])

# ------------------------------------------------------------------ coco.veftopng.unsquash
# Squashed VEF record (from the format description in the property): a count byte above 128 repeats the next
# byte count-128 times; a count byte up to 128 copies that many following bytes; the record is cut to its
# nominal length.  `exp`/`e` are the ghost expansion.
UNSQ_GHOST = """
cb = data[i]
gi = i
if cb > 128:
    glen = cb - 128
    exp = fill(exp, e, e + glen, data[i + 1])
    used = 2
else:
    glen = cb
    exp = copy(exp, e, data, i + 1, cb)
    used = 1 + cb
e = e + glen
"""
UNSQ_EQ = "forall(0, len(decomp_data), lambda j: decomp_data[j] == exp[j])"
contract(module="coco.veftopng", qualname="unsquash", tag="C17", also=["C19"],
         params=dict(data="bytes_list", count="int", orig_len="int"),
         requires=["count >= 0", "orig_len >= 0", "count <= len(data)"],
         ghost_entry="exp = seq(0)\ne = 0\ncb = 0\ngi = 0\nglen = 0\nused = 0",
         loops={
             0: dict(ghost_vars=["exp", "e", "cb", "gi", "glen", "used"],
                     ghost_body_start=UNSQ_GHOST + "assume(i + used <= count)\n",   # valid record: groups do not straddle its end
                     inv=["i >= 0", "i <= count", "e >= 0", "len(decomp_data) == e", UNSQ_EQ],
                     decreases="count - i"),
             1: dict(inv=["cb > 128", "i == gi + 1", "count_byte >= 0", "count_byte <= glen", "len(decomp_data) == e - count_byte",
                          "forall(e - glen, e, lambda j: exp[j] == data[i])", UNSQ_EQ],
                     decreases="count_byte"),
             2: dict(inv=["cb <= 128", "count_byte == cb", "j >= 0", "j <= count_byte", "i == gi + 1 + j", "len(decomp_data) == e - glen + j",
                          "forall(e - glen, e, lambda k: exp[k] == data[gi + 1 + k - (e - glen)])", UNSQ_EQ],
                     decreases="count_byte - j"),
         },
         ensures=[dict(id="length", post="len(result) == ite(orig_len < e, orig_len, e)", props=["C17", "C19"]),
                  dict(id="content", post="forall(0, len(result), lambda j: result[j] == exp[j])", props=["C17"])],
         raises=[])

# ------------------------------------------------------------------ coco.pixtopgm
contract(module="coco.pixtopgm", qualname="convert", tag="C19", also=["C18"],
         params=dict(input_image_stream="instream", output_image_stream="outstream"), requires=[],
         loops={0: dict(inv=["forall(0, len(s), lambda j: 0 <= s[j] and s[j] <= 255)"]),
                1: dict(inv=["forall(0, len(s), lambda j: 0 <= s[j] and s[j] <= 255)"])},
         ensures=[dict(id="header", post="hdr == fmt('P5\\n{} {}\\n255\\n', side, side)", props=["C18", "C19"]),
                  dict(id="side", post="side >= 0 and side*side <= 2*L and 2*L < (side+1)*(side+1)", props=["C18"]),
                  dict(id="complete", post="n == side*side", props=["C18", "C19"])],
         raises=[dict(id="loud", exc="*", allowed="True")])

# C16: every pixel at its position.  The image is stored sideways: source row y (side//2 bytes) becomes output column y, byte x of a
# row gives the samples of output rows 2x (high nibble) and 2x+1 (low nibble), shade 15 - nibble scaled to 0..255.
PIX_CELL = ("s[(xx+xx)*side + yy] == 255 - hi_nib(inp[h*yy + xx])*17 and "
            "s[(xx+xx+1)*side + yy] == 255 - lo_nib(inp[h*yy + xx])*17")
PIX_DONE = "forallq(0, {Y}, lambda yy: forallq(0, h, lambda xx: " + PIX_CELL + "))"
PIX_ROW = "forallq(0, {X}, lambda xx: " + PIX_CELL.replace("yy", "y") + ")"
PIX_BYTES = "forall(0, len(s), lambda j: 0 <= s[j] and s[j] <= 255)"
# facts about products (proved with real multiplication): odd rows, and rows of the sideways buffer do not overlap
# (bound variables of the lemmas are named so that the product abstraction orders factors as in the invariants)
PIX_LEMMAS = ["side >= 0", "side % 2 == 0", "h + h == side", "side*side == 2*L",
              "forallq(0, h, lambda xq: (xq+xq+1)*side == (xq+xq)*side + side)",
              "forallq(0, h, lambda xq: xq*side >= 0 and (xq+xq+1)*side + side <= side*side)",
              ]
contract(module="coco.pixtopgm", qualname="convert", tag="C16",
         params=dict(input_image_stream="instream", output_image_stream="outstream"), requires=[],
         ghost_entry="h = 0",
         loops={0: dict(ghost_before="h = side // 2", lemmas=PIX_LEMMAS + ["h*(y+1) == h*y + h", "h*y >= 0", "implies(y < side, h*y + h <= L)"],
                        inv=[PIX_BYTES, "len(s) == side*side", "pos == h*y", PIX_DONE.format(Y="y")]),
                1: dict(lemmas=["forallq(0, h, lambda xq: implies(xq < x, xq*side + side <= x*side))",
                                "forallq(0, h, lambda xq: implies(x < xq, x*side + side <= xq*side))", "x*side >= 0", "(x+x+1)*side == (x+x)*side + side", "implies(x < h, (x+x+1)*side + side <= side*side)"],
                        inv=[PIX_BYTES, "len(s) == side*side", "pos == h*y + x", PIX_DONE.format(Y="y"), PIX_ROW.format(X="x")])},
         ensures=[dict(id="pixels", props=["C16"],
                       post="side % 2 == 0 and n == side*side and " + PIX_DONE.format(Y="side").replace("s[", "out[")),
                  dict(id="header", post="hdr == fmt('P5\\n{} {}\\n255\\n', side, side)", props=["C16"])],
         raises=[dict(id="loud", exc="*", allowed="True")])

# ------------------------------------------------------------------ coco.maxtoppm
MAX_PARAMS = dict(input_image_stream="instream", output_image_stream="outstream", arte=("lazyenum", [0, 3, 4, 5, 6, 7, 8]),
                  newsroom="bool", cols="int", rows="optint", skip="optint", ignore_header_errors="bool")
MAX_REQ = ["cols >= 1", "rows is None or rows >= 1", "skip is None or skip >= 0"]   # the validators' ranges
MAX_GHOST_ENTRY = "cols0 = cols\nrows0 = rows\nbase = 0 if skip is None else ite(skip < L, skip, L)\ndstart = 0\ncw = 0\nrs = 0"
contract(module="coco.maxtoppm", qualname="convert", tag="C19", also=["C18"],
         params=MAX_PARAMS, requires=MAX_REQ, ghost_entry=MAX_GHOST_ENTRY,
         loops={
             0: dict(ghost_before="dstart = pos\ncw = cols // 8", ghost_vars=["rs"], ghost_body_start="rs = pos",
                     lemmas=["cw*(jj+1) == cw*jj + cw", "cw >= 0", "implies(jj >= 0, cw*jj >= 0)",
                             "implies(cols % 8 == 0, cols*rows == 8*(cw*rows))"],
                     inv=["n == 24*(pos - dstart)", "pos == dstart + cw*jj", "rows >= 0 or jj == 0"]),
             1: dict(counter="bi", inv=["n == 24*(rs - dstart) + 24*bi"]),
         },
         ensures=[dict(id="header", when="result == True", props=["C18", "C19"],
                       post="hdr == fmt('P6\\n{} {}\\n255\\n', max_w(newsroom, cols0, inp, base), max_h(newsroom, cols0, rows0, inp, base))"),
                  dict(id="complete", when="result == True", props=["C18", "C19"],
                       post="n == 3*(cols*rows)",
                       known=[dict(finding="KF-C18-MAX-width-not-multiple-of-8", when="cols % 8 != 0")]),
                  dict(id="result-is-bool", post="result == True or result == False", props=["C19"]),
                  # corrupted header fields are reported unless header errors are to be ignored (documented failure result: False)
                  dict(id="bad-first-byte-is-reported", when="result == True", props=["C19"],
                       post="newsroom or ignore_header_errors or inp[base] == 0"),
                  dict(id="inconsistent-length-is-reported", when="result == True", props=["C19"],
                       post="newsroom or ignore_header_errors or rows0 is not None or "
                            "(cols0 * ((8 * (inp[base + 1] * 256 + inp[base + 2])) // cols0)) // 8 == inp[base + 1] * 256 + inp[base + 2]")],
         lemmas=[],
         raises=[dict(id="loud", exc="*", allowed="True")])

UNSQ_BYTES = "forall(0, len(decomp_data), lambda j: 0 <= decomp_data[j] and decomp_data[j] <= 255)"
contract(module="coco.veftopng", qualname="unsquash", tag="C19",
         params=dict(data="bytes_list", count="int", orig_len="int"),
         # any record, truncated ones included: a normal return means every group lay inside the data actually present
         requires=["count >= 0", "orig_len >= 0"],
         ghost_entry="gi = 0\nc0 = 0",
         loops={0: dict(ghost_vars=["gi", "c0"], ghost_body_start="gi = i", inv=["i >= 0", UNSQ_BYTES], decreases="count - i"),
                1: dict(ghost_before="c0 = count_byte",
                        inv=["i == gi + 1", "c0 >= 1", "count_byte <= c0", UNSQ_BYTES],
                        decreases="count_byte"),
                2: dict(inv=["i >= gi + 1", "j >= 0", UNSQ_BYTES], decreases="count_byte - j")},
         # (a clause "a truncated record is loud" stood here until /repo fix 43ab8ba: start() now checks the total length of the
         #  decoded picture itself, so C19 no longer needs unsquash to refuse records that announce more bytes than are present)
         ensures=[dict(id="cut-to-nominal-length", post="len(result) <= orig_len"),
                  dict(id="bytes", post="forall(0, len(result), lambda j: 0 <= result[j] and result[j] <= 255)")],
         result_spec=["len(result) <= orig_len", "forall(0, len(result), lambda j: 0 <= result[j] and result[j] <= 255)"], may_raise=["IndexError"],
         raises=[dict(id="loud", exc="IndexError", allowed="True")], check_termination=True)

# ------------------------------------------------------------------ coco.cm3toppm
contract(module="coco.cm3toppm", qualname="convert.dump", **DUMP)
contract(module="coco.cm3toppm", qualname="convert.dump", tag="C19", **DUMP_LOUD)
CM3_PARAMS = dict(input_image_stream="instream", output_image_stream="outstream")
# Ghost image IMGZ: 160 zero bytes (the "line above" of the first line) followed by the picture, 160 bytes per line.
CM3_PX = "forall(0, {K}, lambda t: byte16_at(out, 6*t, subseq(inp, 1, 17), IMGZ[160 + t]))"
CM3_ZERO = "forall(0, 160, lambda j: IMGZ[j] == 0) and forall(0, 160*385, lambda t: 0 <= IMGZ[t] and IMGZ[t] <= 255)"
CM3_GHOST_ENTRY = """
pages = bitat(inp[0], 7) + 1
dstart = 29 if bitat(inp[0], 0) != 0 else 272
IMGZ = fill(seq(160 * 385), 0, 160 * 385, 0)
gl = 0
ls = 0
cb = 0
k2 = 0
lp = 0
gt = 0
sel = 0
s2 = 0
v = 0
"""
CM3_GHOST_LINE = """
ls = pos
gl = 192 * ii + jj
assume(pos < L)
cb = inp[pos]
assume(implies(cb >= 128, pos + 161 <= L))
assume(implies(cb < 128, pos + 21 + cb <= L))
k2 = 0
lp = ls + 21 + cb
"""
# one image byte, by the definition of the line coding: selector stream 1 (20 bytes after the control byte, most
# significant bit first) 0 = copy the raster predecessor; 1 = consult selector stream 2 (the next `control` bytes):
# 0 = copy the byte above, 1 = take the next literal byte.  A control byte >= 128 means 160 literal bytes.
CM3_GHOST_BYTE = """
gt = 160 * (gl + 1) + kk
if cb >= 128:
    v = inp[ls + 1 + kk]
else:
    sel = bitat(inp[ls + 1 + kk // 8], 7 - kk % 8)
    if sel == 0:
        v = IMGZ[gt - 1]
    else:
        assume(k2 // 8 < cb)
        s2 = bitat(inp[ls + 21 + k2 // 8], 7 - k2 % 8)
        if s2 == 0:
            v = IMGZ[gt - 160]
        else:
            assume(lp < L)
            v = inp[lp]
            lp = lp + 1
        k2 = k2 + 1
IMGZ = store(IMGZ, gt, v)
"""
CM3_LINBUF_LINE = "forall(0, 160, lambda j: linbuf[j] == IMGZ[160*{G} + j])"
contract(module="coco.cm3toppm", qualname="convert", tag="C17", also=["C16", "C18"],
         params=CM3_PARAMS, ghost_entry=CM3_GHOST_ENTRY,
         requires=["L >= dstart"],
         loops={
             0: dict(ghost_vars=["IMGZ", "gl", "ls", "cb", "k2", "lp", "gt", "sel", "s2", "v"],
                     ghost_body_start="assume(pos < L)\nassume(inp[pos] == 192)\n",
                     inv=["len(linbuf) == 160", "len(buff1) == 20", CM3_ZERO, CM3_LINBUF_LINE.format(G="(192*ii)"),
                          # the first page starts where the format puts it (the assumption "the next byte is the line count 192" below is
                          # relative to the code's own position: without this clause a decoder that skips one byte too many would satisfy it)
                          "ii > 0 or pos == dstart",
                          "n == 960*(192*ii)", CM3_PX.format(K="160*(192*ii)")]),
             1: dict(ghost_vars=["IMGZ", "gl", "ls", "cb", "k2", "lp", "gt", "sel", "s2", "v"],
                     ghost_body_start=CM3_GHOST_LINE,
                     inv=["lines == 192", "len(linbuf) == 160", "len(buff1) == 20", CM3_ZERO, CM3_LINBUF_LINE.format(G="(192*ii + jj)"),
                          "n == 960*(192*ii + jj)", CM3_PX.format(K="160*(192*ii + jj)")]),
             3: dict(inv=["len(buff2) == kk", "pos == ls + 21 + kk", "forall(0, kk, lambda j: buff2[j] == inp[ls + 21 + j])",
                          "contr == cb", "cb < 128"]),
             4: dict(ghost_vars=["IMGZ", "k2", "lp", "gt", "sel", "s2", "v"],
                     ghost_body_start=CM3_GHOST_BYTE,
                     inv=["x == kk", "contr == cb", "gl == 192*ii + jj", "len(linbuf) == 160", "len(buff1) == 20", CM3_ZERO,
                          "forall(0, kk, lambda j: linbuf[j] == IMGZ[160*(gl+1) + j])",
                          "forall(kk, 160, lambda j: linbuf[j] == IMGZ[160*gl + j])",
                          "implies(cb >= 128, pos == ls + 1 + kk)",
                          "implies(cb < 128, pos == lp and k2 >= 0 and u == kk // 8 and bitu == 7 - kk % 8 and y == k2 // 8 and bity == 7 - k2 % 8)",
                          "implies(cb < 128, len(buff2) == cb and forall(0, 20, lambda j: buff1[j] == inp[ls + 1 + j]))",
                          "implies(cb < 128, forall(0, cb, lambda j: buff2[j] == inp[ls + 21 + j]))",
                          "lp >= ls + 21 + cb and lp <= L or cb >= 128",
                          "n == 6*(160*gl + kk)", CM3_PX.format(K="160*gl + kk")]),
             5: dict(inv=[], decreases="L - pos"),
         },
         ensures=[dict(id="header", post="hdr == fmt('P6\\n320 {}\\n255\\n', 192*pages)", props=["C16", "C17", "C18"]),
                  dict(id="length", post="n == 3*320*(192*pages)", props=["C16", "C17", "C18"]),
                  dict(id="pixels", post=CM3_PX.format(K="160*(192*pages)"), props=["C16", "C17"])],
         raises=[])

CM3_RANGES = ["len(linbuf) == 160", "len(buff1) == 20", "forall(0, 160, lambda j: 0 <= linbuf[j] and linbuf[j] <= 255)",
              "forall(0, 20, lambda j: 0 <= buff1[j] and buff1[j] <= 255)",
              "forall(0, len(buff2), lambda j: 0 <= buff2[j] and buff2[j] <= 255)"]
contract(module="coco.cm3toppm", qualname="convert", tag="C19",
         params=CM3_PARAMS, requires=[], check_termination=True,
         ghost_entry="pages = bitat(inp[0], 7) + 1\ntl = 0",
         loops={
             0: dict(ghost_vars=["tl"], inv=["n == 960*tl", "tl == 192*ii"] + CM3_RANGES),
             1: dict(ghost_vars=["tl"], ghost_body_end="tl = tl + 1", inv=["n == 960*tl", "tl == 192*ii + jj", "lines == 192"] + CM3_RANGES),
             3: dict(inv=["len(buff2) == kk", "forall(0, len(buff2), lambda j: 0 <= buff2[j] and buff2[j] <= 255)"]),
             4: dict(inv=["x == kk", "n == 960*tl + 6*kk", "0 <= bitu and bitu <= 7", "0 <= bity and bity <= 7", "u >= 0", "y >= 0"] + CM3_RANGES),
             5: dict(inv=[], decreases="L - pos"),
         },
         ensures=[dict(id="header", post="hdr == fmt('P6\\n320 {}\\n255\\n', 192*pages)"),
                  dict(id="complete", post="n == 3*320*(192*pages)")],
         raises=[dict(id="loud", exc="*", allowed="True")])

MAX_PX = "forall(0, {K}, lambda t: max_px(out, 24*t, inp[dstart + t], arte))"
contract(module="coco.maxtoppm", qualname="convert", tag="C16",
         params=MAX_PARAMS, requires=MAX_REQ, ghost_entry=MAX_GHOST_ENTRY,
         # well-formed: the width is a whole number of bytes and the file holds rows * (cols/8) image bytes after its header
         loops={
             0: dict(ghost_before="dstart = pos\ncw = cols // 8\nassume(cols % 8 == 0)\nassume(rows >= 0)\nassume(L >= dstart + cw*rows)",
                     ghost_vars=["rs"], ghost_body_start="rs = pos",
                     lemmas=["cw*(jj+1) == cw*jj + cw", "cw >= 0", "implies(jj >= 0, cw*jj >= 0)", "implies(jj < rows, cw*jj + cw <= cw*rows)"],
                     inv=["pos == dstart + cw*jj", "n == 24*(cw*jj)", MAX_PX.format(K="cw*jj")]),
             1: dict(counter="bi", inv=["rs == dstart + cw*jj", "len(row) == cw", "pos == rs + cw", "n == 24*(cw*jj + bi)", MAX_PX.format(K="cw*jj + bi")]),
         },
         ensures=[dict(id="pixels", when="result == True", post=MAX_PX.format(K="cw*rows")),
                  dict(id="length", when="result == True", post="n == 24*(cw*rows)")],
         raises=[dict(id="header-too-short", exc="IndexError", allowed="L < base + 5")])


# ------------------------------------------------------------------ coco.veftopng.start (decoding part; argparse / pypng / Pillow are assumed externals)
VEF_PARAMS = dict(argv=("const", ("argv",)))
contract(module="coco.veftopng", qualname="start", tag="C16", also=["C18"],
         params=VEF_PARAMS,
         # uncompressed VEF of the three listed types: first byte not 0x80, type byte 0 / 1 / 3, 16 palette entries that are
         # colour codes (0..63), then exactly the nominal number of image bytes
         requires=["L >= 18", "inp[0] != 128", "inp[1] == 0 or inp[1] == 1 or inp[1] == 3", "forallq(2, 18, lambda j: inp[j] <= 63)",
                   "L == 18 + ite(inp[1] == 3, 16000, 32000)"],
         ghost_entry="ppb = ite(inp[1] == 0, 2, 4)",
         loops={1: dict(counter="bi", inv=["len(bitmap) == (2 if veftype == 8 else 4)*bi", "ppb == ite(inp[1] == 0, 2, 4)", "(veftype == 8) == (inp[1] == 0)",
                                            "forall(0, len(bitmap), lambda q: 0 <= bitmap[q] and bitmap[q] <= 63)",
                                            "forall(0, bi, lambda p: vef_fields(bitmap, p, inp, (2 if veftype == 8 else 4)))"])},
         ensures=[dict(id="png-written", post="png_written", props=["C16", "C18"]),
                  dict(id="size-by-type", post="png_w == ite(inp[1] == 1, 640, 320) and png_h == 200", props=["C16", "C18"]),
                  dict(id="bitmap-complete", post="len(png_bitmap) == png_w*png_h", props=["C16", "C18"]),
                  dict(id="pixels", post="forall(0, L - 18, lambda p: vef_fields(png_bitmap, p, inp, ppb))", props=["C16"]),
                  dict(id="indexes-palette", post="forall(0, len(png_bitmap), lambda q: 0 <= png_bitmap[q] and png_bitmap[q] <= 63)", props=["C16", "C18"]),
                  dict(id="palette-is-the-six-bit-colour-code", post="forall(0, 64, lambda k: png_palette[k][0] == px6r(k) and png_palette[k][1] == px6g(k) and png_palette[k][2] == px6b(k))", props=["C16"]),
                  dict(id="palette-has-64-entries", post="len(png_palette) == 64", props=["C16", "C18"]),
                  dict(id="resize-only-the-640-wide", post="png_resized == (png_w == 640) and implies(png_w == 640, png_resized_w == 640 and png_resized_h == 400)", props=["C16", "C18"]),
                  dict(id="picture-only-resized", post="not png_altered", props=["C16", "C18"])],
         reveal=["px6r", "px6g", "px6b"],
         raises=[])
contract(module="coco.veftopng", qualname="start", tag="C19",
         params=VEF_PARAMS, requires=[], check_termination=True,
         loops={0: dict(inv=["i >= 0", "count_byte >= 18", "forall(0, len(image_data), lambda j: 0 <= image_data[j] and image_data[j] <= 255)"], decreases="400 - i"),
                1: dict(counter="bi", inv=["implies(veftype == 8, len(bitmap) == 2*bi)", "implies(veftype == 7 or veftype == 6, len(bitmap) == 4*bi)",
                                            "implies(veftype == 5, len(bitmap) == 0)"])},
         # type 5 (640x200x2) is accepted by the type table but has no pixel branch: an empty pixel stream is written and the
         # run then fails loudly inside Pillow's resize (observed natively: OSError) - a reported failure, so no claim is made for it
         ensures=[dict(id="complete", when="png_written", post="len(png_bitmap) == png_w*png_h")],
         raises=[dict(id="exit-nonzero", exc="SystemExit", allowed="exit_code != 0"), dict(id="loud", exc="IndexError", allowed="True")])
