"""Specification functions (pure).  The same text is translated to solver terms by pyvc (spec mode) and
executed by CPython when a counterexample is replayed.  Written from the property statements and the format
descriptions in them, not from the code."""


def bit(c, k):
    return (c >> k) % 2


# CoCo 3 six-bit colour code (C16): bits 5/2 -> red, 4/1 -> green, 3/0 -> blue, two-bit intensity * 85
def px6r(c):
    return (bit(c, 5) * 2 + bit(c, 2)) * 85


def px6g(c):
    return (bit(c, 4) * 2 + bit(c, 1)) * 85


def px6b(c):
    return (bit(c, 3) * 2 + bit(c, 0)) * 85


def hi_nib(b):
    return b >> 4


def lo_nib(b):
    return b % 16


def px_at(out, o, c):
    """three output samples at offset o are the RGB of colour code c"""
    return out[o] == px6r(c) and out[o + 1] == px6g(c) and out[o + 2] == px6b(c)


def byte16_at(out, o, pal, b):
    """a 16-colour image byte b renders as two pixels, high nibble first, through palette pal"""
    return px_at(out, o, pal[hi_nib(b)]) and px_at(out, o + 3, pal[lo_nib(b)])


# Spec functions that callers see only as uninterpreted symbols; a unit lists them under `reveal` when its
# proof needs the definition (the closures that compute the colour from the bits).
OPAQUE = ["px6r", "px6g", "px6b"]
