"""Specification functions (pure).  The same text is translated to solver terms by pyvc (spec mode) and
executed by CPython when a counterexample is replayed.  Written from the property statements and the format
descriptions in them, not from the code."""


def bit(c, k):
    return (c >> k) % 2


# CoCo 3 six-bit colour code (C16): bits 5/2 -> red, 4/1 -> green, 3/0 -> blue, two-bit intensity * 85
def px6r(c):
    return (bit(c, 5) * 2 + bit(c, 2)) * 85


def px6g(c):
    return (bit(c, 4) * 2 + bit(c, 1)) * 85


def px6b(c):
    return (bit(c, 3) * 2 + bit(c, 0)) * 85


def hi_nib(b):
    return b >> 4


def lo_nib(b):
    return b % 16


def px_at(out, o, c):
    """three output samples at offset o are the RGB of colour code c"""
    return out[o] == px6r(c) and out[o + 1] == px6g(c) and out[o + 2] == px6b(c)


def byte16_at(out, o, pal, b):
    """a 16-colour image byte b renders as two pixels, high nibble first, through palette pal"""
    return px_at(out, o, pal[hi_nib(b)]) and px_at(out, o + 3, pal[lo_nib(b)])


# Composite-to-RGB table of mgetoppm.  The property speaks of "the colour its palette entry denotes"; for
# composite palettes the only specification available is this table.  Its values are pinned to the pinned
# tree (an assumption listed in the evidence); independently of that it must be a permutation of 0..63.
C2R = [0, 21, 2, 20, 6, 49, 35, 4, 33, 5, 14, 1, 12, 10, 3, 28, 7, 17, 16, 22, 48, 34, 37, 32, 44, 40, 42, 13, 8, 11, 24,
       26, 56, 19, 18, 50, 54, 52, 38, 36, 46, 45, 41, 15, 9, 25, 27, 30, 63, 58, 23, 51, 55, 53, 39, 60, 47, 61, 43, 57,
       29, 31, 59, 62]


def mge_pal(inp, k):
    """k-th palette entry of an MGE file as an RGB colour code: stored as is when byte 17 is 0 (RGB palette),
    mapped through the composite table otherwise"""
    return inp[1 + k] if inp[17] == 0 else C2R[inp[1 + k]]


def mge_palette(inp):
    return [mge_pal(inp, 0), mge_pal(inp, 1), mge_pal(inp, 2), mge_pal(inp, 3), mge_pal(inp, 4), mge_pal(inp, 5),
            mge_pal(inp, 6), mge_pal(inp, 7), mge_pal(inp, 8), mge_pal(inp, 9), mge_pal(inp, 10), mge_pal(inp, 11),
            mge_pal(inp, 12), mge_pal(inp, 13), mge_pal(inp, 14), mge_pal(inp, 15)]


# Spec functions that callers see only as uninterpreted symbols; a unit lists them under `reveal` when its
# proof needs the definition (the closures that compute the colour from the bits).
OPAQUE = ["px6r", "px6g", "px6b"]


def max_w(newsroom, cols0, inp, base):
    """image width MAX announces: 8 x the first header byte for Newsroom/.ART files, else the -w option"""
    return inp[base] * 8 if newsroom else cols0


def max_h(newsroom, cols0, rows0, inp, base):
    """image height: second header byte (Newsroom); the -r option if given; else derived from the big-endian
    length field: rows = 8 * size div cols"""
    derived = rows0 if rows0 is not None else (8 * (inp[base + 1] * 256 + inp[base + 2])) // cols0
    return inp[base + 1] if newsroom else derived


# ------------------------------------------------------------------ MAX / ART pixel modes (C16: "the colour its pixel mode assigns")
# Tables of the pixel modes: pinned from the tool's own documentation of the modes (no external definition exists).
BR2T = [[0, 0, 0], [255, 85, 0], [0, 170, 255], [255, 255, 255]]
BR3T = [[0, 0, 0], [255, 0, 0], [0, 0, 255], [255, 255, 255]]
SEMIGT = [[0, 0, 0], [0, 255, 0], [255, 255, 0], [0, 0, 255], [255, 0, 0], [255, 255, 255], [0, 211, 170], [204, 0, 255], [255, 128, 0]]


def rgb_at(out, o, T, idx):
    return out[o] == T[idx][0] and out[o + 1] == T[idx][1] and out[o + 2] == T[idx][2]


def bw8(out, o, v):
    """mode 0: eight pixels per byte, most significant bit first, 0 = black, 1 = white"""
    return (rgb_at(out, o, BR2T, bit(v, 7) * 3) and rgb_at(out, o + 3, BR2T, bit(v, 6) * 3) and rgb_at(out, o + 6, BR2T, bit(v, 5) * 3)
            and rgb_at(out, o + 9, BR2T, bit(v, 4) * 3) and rgb_at(out, o + 12, BR2T, bit(v, 3) * 3) and rgb_at(out, o + 15, BR2T, bit(v, 2) * 3)
            and rgb_at(out, o + 18, BR2T, bit(v, 1) * 3) and rgb_at(out, o + 21, BR2T, bit(v, 0) * 3))


def pair_hi_first(v, k):
    """bit pair k (0 = most significant pair) read as a two-bit number, high bit first"""
    return bit(v, 7 - 2 * k) * 2 + bit(v, 6 - 2 * k)


def pair_lo_first(v, k):
    return bit(v, 7 - 2 * k) + bit(v, 6 - 2 * k) * 2


def dbl(out, o, T, idx):
    """a bit pair is one double-width pixel: two identical samples"""
    return rgb_at(out, o, T, idx) and rgb_at(out, o + 3, T, idx)


def pairs_hi(out, o, v, T, base):
    return (dbl(out, o, T, base + pair_hi_first(v, 0)) and dbl(out, o + 6, T, base + pair_hi_first(v, 1))
            and dbl(out, o + 12, T, base + pair_hi_first(v, 2)) and dbl(out, o + 18, T, base + pair_hi_first(v, 3)))


def pairs_lo(out, o, v, T, base):
    return (dbl(out, o, T, base + pair_lo_first(v, 0)) and dbl(out, o + 6, T, base + pair_lo_first(v, 1))
            and dbl(out, o + 12, T, base + pair_lo_first(v, 2)) and dbl(out, o + 18, T, base + pair_lo_first(v, 3)))


def max_px(out, o, v, arte):
    """24 output samples for one image byte under pixel mode arte (0 BW, 3 BR2, 4 RB2, 5 BR3, 6 RB3, 7 S10, 8 S11)"""
    return (bw8(out, o, v) if arte == 0 else
            pairs_hi(out, o, v, BR2T, 0) if arte == 3 else
            pairs_lo(out, o, v, BR2T, 0) if arte == 4 else
            pairs_hi(out, o, v, BR3T, 0) if arte == 5 else
            pairs_lo(out, o, v, BR3T, 0) if arte == 6 else
            pairs_lo(out, o, v, SEMIGT, 1) if arte == 7 else
            pairs_lo(out, o, v, SEMIGT, 5))



def vef_fields(bitmap, p, inp, ppb):
    """image byte p (at file offset 18 + p) gives ppb palette-mapped pixels, most significant field first"""
    b = inp[18 + p]
    return ((bitmap[2 * p] == inp[2 + (b >> 4)] and bitmap[2 * p + 1] == inp[2 + (b % 16)]) if ppb == 2 else
            (bitmap[4 * p] == inp[2 + (b >> 6)] and bitmap[4 * p + 1] == inp[2 + ((b >> 4) % 4)]
             and bitmap[4 * p + 2] == inp[2 + ((b >> 2) % 4)] and bitmap[4 * p + 3] == inp[2 + (b % 4)]))
